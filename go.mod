module verif

go 1.20
