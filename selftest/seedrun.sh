#!/bin/sh
# usage: seedrun.sh <patch file> <prop> [budget]  -- apply a seeded change to /repo, run the quick check, undo
P=$1; PROP=$2; B=${3:-30s}
cd /repo || exit 2
[ -z "$(git status --porcelain --untracked-files=no)" ] || { echo "/repo dirty"; exit 2; }
git apply "$P" || { echo "patch does not apply"; exit 2; }
cd /verif
./bin/vsim check -p $PROP -budget $B > /tmp/seedrun.$PROP.log 2>&1
rc=$?
git -C /repo checkout -- .
echo "== $P vs $PROP: exit $rc  $(grep "^$PROP quick" /tmp/seedrun.$PROP.log)"
grep "^--- viol\|^further\|^MACH\|^KNOWN" /tmp/seedrun.$PROP.log | cut -c1-220 | head -8
exit $rc
