#!/bin/bash
# usage: wave.sh <list file> [budget]   lines: <worktree> <demo dir> <seed id> <property>
# collect + confirm + run the property's quick check against each change, one after the other (they share /repo)
LIST=$1; B=${2:-40s}
while read -r wt demo id prop; do
  [ -z "$wt" ] && continue
  echo "### $id ($prop) from $wt"
  ${VERIF_DIR:-/verif}/selftest/collect_seed.sh $wt $demo $id 2>&1 | tail -1
  ${VERIF_DIR:-/verif}/selftest/seedrun.sh ${VERIF_DIR:-/verif}/seeded/$id/patch.diff $prop $B 2>&1 | tail -6
  cp /tmp/seedrun.$prop.log /tmp/seedrun.$id.log
  git -C /repo worktree remove --force $wt 2>/dev/null
done < $LIST
echo "### WAVE DONE"
