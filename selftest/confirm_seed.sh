#!/bin/bash
# usage: confirm_seed.sh <patch> <demo dir>  -- in a scratch worktree: suite passes with the change, demo fails with it and passes without it
export GOFLAGS=-mod=mod GOPROXY=off GOSUMDB=off GOTOOLCHAIN=local
PATCH=$1; DEMO=$2
SC=$(mktemp -d /tmp/sc-XXXXXX); rmdir $SC
git -C /repo worktree add -q --detach $SC HEAD || exit 2
cleanup() { git -C /repo worktree remove --force $SC 2>/dev/null; rm -rf $SC $SC-demo; }
trap cleanup EXIT
cd $SC && git apply $PATCH || { echo "RESULT patch-does-not-apply"; exit 2; }
suite=pass
for m in . tests fuzz; do (cd $SC/$m && go test -vet=off -count=1 ./... >/tmp/confirm.suite.log 2>&1) || suite=FAIL; done
rundemo() {
  if [ -f $DEMO/go.mod ]; then
    rm -rf $SC-demo; cp -r $DEMO $SC-demo; sed -i "s#=> /tmp/wt-[A-Za-z0-9-]*#=> $SC#" $SC-demo/go.mod; cp $SC/go.sum $SC-demo/go.sum
    if ls $SC-demo/*_test.go >/dev/null 2>&1; then (cd $SC-demo && timeout 600 go test -count=1 ./... > /tmp/confirm.demo.log 2>&1); else (cd $SC-demo && timeout 600 go run . > /tmp/confirm.demo.log 2>&1); fi
  else
    # a demo in package tests belongs to the tests/ module of the repository, any other to its root package
    sub=.; if grep -q '^package tests' $DEMO/*_test.go; then sub=tests; fi
    cp $DEMO/*_test.go $SC/$sub/; (cd $SC/$sub && timeout 600 go test -vet=off -count=1 -run "$(grep -ho '^func Test[A-Za-z0-9_]*' $DEMO/*_test.go | sed 's/func //' | paste -sd'|')" . > /tmp/confirm.demo.log 2>&1); rc=$?; for f in $DEMO/*_test.go; do rm -f $SC/$sub/$(basename $f); done; return $rc
  fi
}
rundemo; with=$?
cd $SC && git apply -R $PATCH
rundemo; without=$?
echo "RESULT suite_with_change=$suite demo_with_change_exit=$with demo_without_change_exit=$without"
