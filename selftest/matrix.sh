#!/bin/bash
# usage: matrix.sh <repo copy> <list file> <budget> <out file>
# For every patch in the list (lines: <patch path> [props...]) apply it to the repo copy (VERIF_REPO), run the
# quick checks of the given properties (default: all nine) and record exit codes. Used for (a) the false-alarm
# sweep over behaviour-preserving changes (every exit must be 0) and (b) the cross-property matrix of seeded changes.
REPO=$1; LIST=$2; BUDGET=${3:-15s}; OUT=${4:-matrix.out}
export VERIF_REPO=$REPO VERIF_DIR=${VERIF_DIR:-$PWD}
ALL="C04 C05 C06 C07 C08 C09 C13 C16 C17"
: > $OUT
while read -r patch props; do
  [ -z "$patch" ] && continue
  case "$patch" in \#*) continue;; esac
  [ -z "$props" ] && props=$ALL
  git -C $REPO checkout -q -- . ; git -C $REPO apply $(realpath $patch) || { echo "$patch NOAPPLY" >> $OUT; continue; }
  line="$patch"
  for p in $props; do
    bin/vsim check -p $p -budget $BUDGET > /tmp/matrix.$$.log 2>&1; rc=$?
    line="$line $p=$rc"
    if [ $rc -ne 0 ]; then grep "^--- viol\|^MACH\|^KNOWN" /tmp/matrix.$$.log | cut -c1-200 | sed "s#^#    [$p] #" >> $OUT.detail; echo "    ($patch)" >> $OUT.detail; fi
  done
  echo "$line" >> $OUT
  git -C $REPO checkout -q -- .
done < $LIST
rm -f /tmp/matrix.$$.log
echo DONE >> $OUT
