#!/bin/bash
# usage: collect_seed.sh <worktree> <demo dir name inside it> <new seed id>
# Takes a sub-agent's uncommitted change and demo out of its scratch worktree into seeded/<id>/ and confirms it
# (suite passes with it, demo fails with it, demo passes without it) in a fresh scratch worktree.
WT=$1; DEMO=$2; ID=$3
D=${VERIF_DIR:-/verif}/seeded/$ID
mkdir -p $D
git -C $WT diff -- . ':!fuzz/go.mod' ':!fuzz/go.sum' ":!demo_*" > $D/patch.diff
[ -s $D/patch.diff ] || { echo "empty patch"; exit 2; }
rm -rf $D/demo; mkdir -p $D/demo
for f in $WT/$DEMO/*.go $WT/$DEMO/go.mod $WT/$DEMO/go.sum; do [ -f $f ] && cp $f $D/demo/; done
${VERIF_DIR:-/verif}/selftest/confirm_seed.sh $D/patch.diff $D/demo
