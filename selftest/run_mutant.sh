#!/bin/sh
# usage: run_mutant.sh <patch> <property> [budget]   -- applies the patch to /repo, runs the quick check, restores /repo
P=$1; PROP=$2; B=${3:-15s}
cd /repo || exit 2
git apply "$P" || { echo "patch does not apply"; exit 2; }
cd /verif
./bin/vsim check -p $PROP -budget $B > /tmp/mutant.$PROP.log 2>&1
rc=$?
git -C /repo checkout -- .
echo "== $(basename $P) vs $PROP: exit $rc"
grep "^VIOLATION\|^--- viol\|^further\|^MACH\|^KNOWN" /tmp/mutant.$PROP.log | cut -c1-260
grep "^$PROP quick" /tmp/mutant.$PROP.log
exit $rc
