#!/bin/bash
# usage: rebase_patch.sh <patch> <out>   -- 3-way rebase of a patch onto /repo HEAD; prints CLEAN/CONFLICT
P=$1; OUT=$2
W=${REBASE_WT:-/tmp/repo-m}   # a scratch git worktree of /repo (git -C /repo worktree add --detach $W HEAD)
cd $W || exit 2
HEADC=$(git -C /repo rev-parse HEAD)
base=""
for c in $(git -C /repo log --format=%h -n 16 HEAD~1); do
  git reset -q --hard; git checkout -q --detach $c
  if git apply --check $P 2>/dev/null; then base=$c; break; fi
done
[ -z "$base" ] && { echo "NOBASE $P"; exit 1; }
git apply $P
files=$(git diff --name-only; git ls-files --others --exclude-standard)
rm -rf /tmp/rb; mkdir -p /tmp/rb/theirs /tmp/rb/base
for f in $files; do mkdir -p /tmp/rb/theirs/$(dirname $f) /tmp/rb/base/$(dirname $f); cp $f /tmp/rb/theirs/$f; git show $base:$f > /tmp/rb/base/$f 2>/dev/null || : > /tmp/rb/base/$f; done
git reset -q --hard; git clean -qfd; git checkout -q --detach $HEADC
st=CLEAN
for f in $files; do
  if [ -f $f ]; then git merge-file -q $f /tmp/rb/base/$f /tmp/rb/theirs/$f || st=CONFLICT; else mkdir -p $(dirname $f); cp /tmp/rb/theirs/$f $f; fi
done
git add -N . 2>/dev/null
git diff HEAD > $OUT
echo "$st base=$base $P"
[ -n "$KEEP" ] || { git reset -q --hard; git clean -qfd; }
