package world

import (
	"encoding/binary"

	"github.com/cloudwego/frugal/verifharness/model"
)

var countValues = []int64{-1, -2, -(1 << 31), 1<<31 - 1, 1 << 24, 1 << 16, 65535, 256}
var oddCodes = []byte{0, 1, 5, 7, 9, 16, 17, 18, 0x7f, 0x80, 0xfe, 0xff}

// applyFault damages a message in flight. It returns the bytes the decoder receives and a description.
func applyFault(c *model.Corpus, sd *model.StructDef, op *OpSpec, clean []byte, tr *model.Tracker) ([]byte, string) {
	r := model.NewRng(model.Mix(op.FSeed, 0xfa))
	b := append([]byte(nil), clean...)
	pick := func(kinds ...string) *model.Pos {
		var c []int
		for i, p := range tr.P {
			for _, k := range kinds {
				if p.Kind == k {
					c = append(c, i)
				}
			}
		}
		if len(c) == 0 {
			return nil
		}
		// bias towards later (more deeply nested / in-flight) positions
		i := c[r.Intn(len(c))]
		if r.Chance(1, 2) {
			i = c[len(c)/2+r.Intn(len(c)-len(c)/2)]
		}
		return &tr.P[i]
	}
	switch op.Fault {
	case "", "none":
		return b, "none"
	case "trunc":
		if len(b) == 0 {
			return b, "trunc(empty)"
		}
		k := r.Intn(len(b))
		if p := pick("strlen", "count"); p != nil && r.Chance(1, 3) {
			// cut shortly after a variable-size piece ends: inside whatever fixed-width value or header follows it
			end := p.Off + 4
			if p.Kind == "strlen" {
				end += p.Aux
			}
			if c := end + r.Intn(9); c < len(b) {
				k = c
			}
		}
		return b[:k], model.Sf("truncate at %d of %d", k, len(b))
	case "flip":
		n := 1 + r.Intn(3)
		desc := "flip"
		for i := 0; i < n && len(b) > 0; i++ {
			off := r.Intn(len(b))
			var v byte
			switch r.Intn(4) {
			case 0:
				v = 0
			case 1:
				v = 0xff
			case 2:
				v = b[off] ^ (1 << uint(r.Intn(8)))
			default:
				v = byte(r.Next())
			}
			b[off] = v
			desc += model.Sf(" [%d]=%#x", off, v)
		}
		return b, desc
	case "count":
		p := pick("count", "strlen", "count", "strlen", "count")
		if p == nil {
			return b, "count(no site)"
		}
		var v int64
		switch r.Intn(6) {
		case 0:
			v = int64(p.Aux) + 1
		case 1:
			v = int64(p.Aux) - 1
		case 2:
			v = int64(len(b)-p.Off) + 1 // just beyond what remains
		case 3:
			v = int64(p.Aux) + int64(1+r.Intn(1000))
		default:
			v = countValues[r.Intn(len(countValues))]
		}
		binary.BigEndian.PutUint32(b[p.Off:], uint32(v))
		return b, model.Sf("%s at %d: %d -> %d", p.Kind, p.Off, p.Aux, int32(v))
	case "code":
		p := pick("etype", "ktype", "vtype")
		if p == nil {
			return b, "code(no site)"
		}
		old := b[p.Off]
		b[p.Off] = otherCode(r, old)
		return b, model.Sf("%s at %d: %d -> %d", p.Kind, p.Off, old, b[p.Off])
	case "ftype":
		p := pick("ftype", "fid", "ftype", "stop")
		if p == nil {
			return b, "ftype(no site)"
		}
		switch p.Kind {
		case "fid":
			old := binary.BigEndian.Uint16(b[p.Off:])
			nv := uint16(r.Next())
			if r.Chance(1, 2) && len(sd.Fields) > 0 {
				nv = sd.Fields[r.Intn(len(sd.Fields))].ID
			}
			binary.BigEndian.PutUint16(b[p.Off:], nv)
			return b, model.Sf("field id at %d: %d -> %d", p.Off, old, nv)
		case "stop":
			b[p.Off] = otherCode(r, 0)
			return b, model.Sf("STOP at %d -> %d", p.Off, b[p.Off])
		}
		old := b[p.Off]
		b[p.Off] = otherCode(r, old)
		return b, model.Sf("field type at %d: %d -> %d", p.Off, old, b[p.Off])
	case "splice":
		// a segment of a message of another type replaces / is inserted into this one
		other := c.Valid()[r.Intn(len(c.Valid()))]
		ob := model.GenValue(c, other, r.Next(), model.VOpt{Budget: 200}).Bytes()
		if len(ob) == 0 || len(b) == 0 {
			return b, "splice(empty)"
		}
		s0 := r.Intn(len(ob))
		s1 := s0 + 1 + r.Intn(len(ob)-s0)
		at := r.Intn(len(b))
		var out []byte
		out = append(out, b[:at]...)
		out = append(out, ob[s0:s1]...)
		if r.Chance(1, 2) {
			skip := at + (s1 - s0)
			if skip > len(b) {
				skip = len(b)
			}
			out = append(out, b[skip:]...)
		} else {
			out = append(out, b[at:]...)
		}
		return out, model.Sf("splice %d bytes of a %s message at %d", s1-s0, other.Name, at)
	case "zerotail":
		if len(b) == 0 {
			return b, "zerotail(empty)"
		}
		k := r.Intn(len(b))
		for i := k; i < len(b); i++ {
			b[i] = 0
		}
		return b, model.Sf("zero-fill from %d (torn write)", k)
	case "garbage":
		n := 1 + r.Intn(40)
		for i := 0; i < n; i++ {
			b = append(b, byte(r.Next()))
		}
		return b, model.Sf("append %d bytes after the message", n)
	case "bomb":
		return nestingBomb(c, sd, r)
	}
	return b, "none"
}

func otherCode(r *model.Rng, old byte) byte {
	for {
		var v byte
		if r.Chance(2, 3) {
			v = []byte{2, 3, 4, 6, 8, 10, 11, 12, 13, 14, 15}[r.Intn(11)]
		} else {
			v = oddCodes[r.Intn(len(oddCodes))]
		}
		if v != old {
			return v
		}
	}
}

var bombDepths = []int{40, 47, 49, 63, 65, 70, 200, 600, 1022, 1024, 1100, 3000, 20000, 200000}

// nestingBomb builds a message nested d levels deep: through a recursive path of the type if it has one
// (known-field position), otherwise inside an unknown field (skipped position).
func nestingBomb(c *model.Corpus, sd *model.StructDef, r *model.Rng) ([]byte, string) {
	d := bombDepths[r.Intn(len(bombDepths))]
	path := recursivePath(c, sd)
	if path == nil || r.Chance(1, 3) {
		// unknown field: nested lists of lists ... or structs in structs
		id := uint16(60000)
		for sd.FieldByID(id) != nil {
			id++
		}
		var b []byte
		if r.Chance(1, 2) {
			b = append(b, model.WStruct, byte(id>>8), byte(id))
			for i := 0; i < d; i++ {
				b = append(b, model.WStruct, 0, 1)
			}
			for i := 0; i < d; i++ {
				b = append(b, 0)
			}
			b = append(b, 0)
		} else {
			b = append(b, model.WList, byte(id>>8), byte(id))
			for i := 0; i < d; i++ {
				b = append(b, model.WList, 0, 0, 0, 1)
			}
			b = append(b, model.WI8, 0, 0, 0, 0)
		}
		b = append(b, 0)
		return b, model.Sf("nesting bomb depth %d inside unknown field %d", d, id)
	}
	// known recursive path: repeat the cycle's prefix d times, then close
	var pre, suf []byte
	for _, st := range path {
		pre = append(pre, st.pre...)
		suf = append(append([]byte(nil), st.suf...), suf...)
	}
	var b []byte
	for i := 0; i < d; i++ {
		b = append(b, pre...)
	}
	b = append(b, 0) // innermost struct: STOP (may lack required fields; then it is simply invalid)
	for i := 0; i < d; i++ {
		b = append(b, suf...)
	}
	return b, model.Sf("nesting bomb depth %d x cycle of %d through known fields of %s", d, len(path), sd.Name)
}

type pathStep struct{ pre, suf []byte }

// recursivePath finds a cycle sd -> ... -> sd through struct fields, list/set elements and map values,
// and returns for each hop the bytes that open it (field header + container headers) and close it.
func recursivePath(c *model.Corpus, sd *model.StructDef) []pathStep {
	type node struct {
		s    *model.StructDef
		path []pathStep
	}
	seen := map[string]bool{}
	queue := []node{{sd, nil}}
	for len(queue) > 0 {
		n := queue[0]
		queue = queue[1:]
		for _, f := range n.s.Fields {
			pre := []byte{f.T.Wire(), byte(f.ID >> 8), byte(f.ID)}
			target, p2, suf, ok := descend(f.T, nil)
			if !ok {
				continue
			}
			st := pathStep{append(pre, p2...), suf}
			np := append(append([]pathStep(nil), n.path...), st)
			if target == sd.Name {
				return np
			}
			if !seen[target] && len(np) < 4 {
				seen[target] = true
				queue = append(queue, node{c.Get(target), np})
			}
		}
	}
	return nil
}

// descend opens containers down to the first struct: returns the struct name, the header bytes for
// single-element containers, and the closing bytes (a STOP for the struct that the next hop fills).
func descend(t *model.T, pre []byte) (string, []byte, []byte, bool) {
	switch t.K {
	case model.Struct:
		return t.S, pre, []byte{0}, true
	case model.List, model.Set:
		pre = append(pre, t.Elem.Wire(), 0, 0, 0, 1)
		return descend(t.Elem, pre)
	case model.Map:
		if t.Key.Scalar() {
			pre = append(pre, t.Key.Wire(), t.Elem.Wire(), 0, 0, 0, 1)
			kb := make([]byte, map[byte]int{2: 1, 3: 1, 6: 2, 8: 4, 10: 8, 4: 8}[t.Key.Wire()])
			pre = append(pre, kb...)
			return descend(t.Elem, pre)
		}
	}
	return "", nil, nil, false
}

// omitRequired removes (or retypes) up to k occurrences of required fields somewhere in the message
// and returns the Go names of the fields made absent.
func omitRequired(c *model.Corpus, sd *model.StructDef, w *model.W, k int, r *model.Rng) []string {
	type site struct {
		w  *model.W
		sd *model.StructDef
		f  *model.Field
	}
	var sites []site
	var walk func(sd *model.StructDef, w *model.W)
	var walkT func(t *model.T, w *model.W)
	walkT = func(t *model.T, w *model.W) {
		switch t.K {
		case model.Struct:
			walk(c.Get(t.S), w)
		case model.List, model.Set:
			for _, e := range w.L {
				walkT(t.Elem, e)
			}
		case model.Map:
			for i := 0; i+1 < len(w.L); i += 2 {
				walkT(t.Key, w.L[i])
				walkT(t.Elem, w.L[i+1])
			}
		}
	}
	walk = func(sd *model.StructDef, w *model.W) {
		last := map[uint16]*model.W{}
		for _, wf := range w.F {
			f := sd.FieldByID(wf.ID)
			if f == nil || f.T.Wire() != wf.V.T {
				continue
			}
			last[wf.ID] = wf.V
		}
		for _, f := range sd.Fields {
			if v := last[f.ID]; v != nil {
				if f.Req == model.Required {
					sites = append(sites, site{w, sd, f})
				}
				walkT(f.T, v) // only the occurrence that survives (the last) is kept by a decoder
			}
		}
	}
	walk(sd, w)
	var names []string
	for ; k > 0 && len(sites) > 0; k-- {
		i := r.Intn(len(sites))
		s := sites[i]
		sites = append(sites[:i], sites[i+1:]...)
		retype := r.Chance(1, 3)
		var nf []model.WF
		done := false
		for _, wf := range s.w.F {
			if wf.ID == s.f.ID && wf.V.T == s.f.T.Wire() {
				if retype && !done {
					x := model.NewW(model.WI16)
					if s.f.T.Wire() == model.WI16 {
						x = model.NewW(model.WI64)
					}
					x.I = 5
					nf = append(nf, model.WF{ID: wf.ID, V: x})
					done = true
				}
				continue
			}
			nf = append(nf, wf)
		}
		s.w.F = nf
		names = append(names, s.f.Name)
	}
	return names
}
