// Package world is the simulated world around frugal: caller tasks, the op
// bank, histories, the wire with its fault injector, caller buffers, GC and
// pool events, the per-property oracles and the journal.
package world

import (
	"fmt"
	"github.com/cloudwego/frugal/internal/verifsim"

	"github.com/cloudwego/frugal/verifharness/model"
)

// Step is one entry of a history.
type Step struct {
	Slot int    `json:"slot"` // stable index: decision streams are keyed by it, so removing other steps changes nothing here
	Task int    `json:"task"`
	Op   uint64 `json:"op"`
	Ev   string `json:"ev,omitempty"` // "" (bank operation) | gc | flush | scribble | drop | recheck | shared
	Arg  int    `json:"arg,omitempty"`
	// Round: schedule worlds run several rounds per process, each on types nobody in the process has used yet.
	Round int `json:"round,omitempty"`
}

// SchedSpec is the scheduling part of a run.
type SchedSpec struct {
	Strategy string  `json:"strategy"`
	Den      int     `json:"den,omitempty"`
	PCTDepth int     `json:"pct_depth,omitempty"`
	StartAt  []int64 `json:"start_at,omitempty"`
	GCEvery  int64   `json:"gc_every,omitempty"`
	Switches []int64 `json:"switches,omitempty"` // explicit schedule: pairs (step, task)
}

// RunSpec is everything one child process executes, as data.
type RunSpec struct {
	Prof   string    `json:"prof"`
	Corpus uint64    `json:"corpus"`
	Seed   uint64    `json:"seed"`
	Run    int       `json:"run"`
	Tasks  int       `json:"tasks"`
	Pool   string    `json:"pool"`
	Hist   []Step    `json:"hist"`
	Sched  SchedSpec `json:"sched"`
	// Single marks a baseline run: one operation, first and alone in a fresh process.
	Single bool `json:"single,omitempty"`
	Rounds int  `json:"rounds,omitempty"`
	// Knob: per-run buggify knobs
	NoGuard bool `json:"no_guard,omitempty"`
}

// OpSpec is one operation of the bank: a pure function of (profile, corpus seed, id).
type OpSpec struct {
	ID      uint64 `json:"id"`
	Kind    string `json:"kind"` // size | enc | dec | legacy | arg | encplan | decenum
	Type    string `json:"type"`
	ByValue bool   `json:"by_value,omitempty"`
	VSeed   uint64 `json:"vseed"`
	Budget  int    `json:"budget"`
	Foreign bool   `json:"foreign,omitempty"`
	Buf     string `json:"buf,omitempty"` // exact | generous | short | shortspare | zero | nil
	BufK    int    `json:"bufk,omitempty"`
	Fault   string `json:"fault,omitempty"` // none | trunc | flip | count | code | ftype | splice | zerotail | garbage | bomb
	FSeed   uint64 `json:"fseed,omitempty"`
	Prefill bool   `json:"prefill,omitempty"`
	Legacy  string `json:"legacy,omitempty"`
	Arg     string `json:"arg,omitempty"`
	// C09: omit / retype required fields
	Omit int `json:"omit,omitempty"` // 0 none; k>0: number of required-field occurrences to damage
	// C16: index of the shared value / buffer (-1: private)
	Shared int `json:"shared"`
	// Deep > 0: the value is a chain of that many nested structs (see DeepBase)
	Deep int `json:"deep,omitempty"`
}

// Bank derives operations.
type Bank struct {
	Prof   string
	C      *model.Corpus
	Size   uint64
	valid  []*model.StructDef
	rej    []*model.StructDef
	reqs   []*model.StructDef // valid types with required fields somewhere
	unk    []*model.StructDef // valid types with the unknown-fields holder
	unkNC  []*model.StructDef // ... that also have a nocopy field
	byst   []*model.StructDef
	recur  []*model.StructDef
	chains []*model.StructDef // definitions whose values can be chains through their own cluster; hand-written ones first
	nchDes int
	profID uint64
}

// SysArg + 3*k + e: C13's call with the k-th kind of non-struct argument through entry point e (systematic, like the
// calls on rejected definitions: every kind x entry point is part of every run's bank).
const SysArg = uint64(1) << 34

// PanicBase + 3*k + e: a call (size / encode / decode) on the k-th definition whose own InitDefault panics.
const PanicBase = uint64(1) << 36

// WrapBase + 2*k + n: C09's long-run operation on the k-th definition with required fields (see execWrap).
const WrapBase = uint64(1) << 40

// DeepBase + 4*k + d: an encode of a chain of 70 / 520 / 1030 / 1500 nested structs (d) of the k-th definition that
// contains itself: the extreme of the value space in the one dimension a size budget does not reach.
const DeepBase = uint64(1) << 44

var deepLevels = []int{70, 520, 1030, 1500}

// SysRejected is the first id of the systematic part of C13's bank.
const SysRejected = uint64(1) << 32

// BankSize is the number of distinct operations per profile and corpus.
var BankSize = map[string]uint64{"C04": 1500, "C05": 3000, "C06": 1500, "C07": 2500, "C08": 2500, "C09": 3000, "C13": 1500, "C16": 1200, "C17": 1500}

func NewBank(prof string, c *model.Corpus) *Bank {
	b := &Bank{Prof: prof, C: c, Size: BankSize[prof]}
	if b.Size == 0 {
		b.Size = 1000
	}
	for i := 0; i < len(prof); i++ {
		b.profID = b.profID*131 + uint64(prof[i])
	}
	b.valid = c.Valid()
	b.rej = c.RejectedDefs()
	if prof == "C07" || prof == "C08" {
		// calls that fail with the user's own panic are, for these two, one more kind of failing call in a history
		b.rej = append(b.rej, c.Panicky()...)
	}
	for _, s := range b.valid {
		if hasRequired(c, s, map[string]bool{}) {
			b.reqs = append(b.reqs, s)
		}
		if s.Unknown {
			b.unk = append(b.unk, s)
			for _, f := range s.Fields {
				if f.NoCopy {
					b.unkNC = append(b.unkNC, s)
					break
				}
			}
		}
		if len(s.Name) > 2 && s.Name[:2] == "By" {
			b.byst = append(b.byst, s)
		}
		if s.Cluster >= 0 {
			b.recur = append(b.recur, s)
		}
	}
	for _, des := range []bool{true, false} {
		for _, s := range b.valid {
			if model.ChainLink(b.C, s) && designed(s) == des {
				b.chains = append(b.chains, s)
			}
		}
		if des {
			b.nchDes = len(b.chains)
		}
	}
	return b
}

func hasRequired(c *model.Corpus, s *model.StructDef, seen map[string]bool) bool {
	if seen[s.Name] {
		return false
	}
	seen[s.Name] = true
	for _, f := range s.Fields {
		if f.Req == model.Required {
			return true
		}
		if n := structIn(f.T); n != "" && hasRequired(c, c.Get(n), seen) {
			return true
		}
	}
	return false
}

func structIn(t *model.T) string {
	switch t.K {
	case model.Struct:
		return t.S
	case model.List, model.Set:
		return structIn(t.Elem)
	case model.Map:
		if n := structIn(t.Key); n != "" {
			return n
		}
		return structIn(t.Elem)
	}
	return ""
}

var budgets = []int{40, 120, 120, 300, 300, 600, 600, 1500, 5000, 20000, 70000, 120000}

func (b *Bank) pickValid(r *model.Rng) *model.StructDef { return b.valid[r.Intn(len(b.valid))] }

// Focus ids: FocusBase + (index of a valid definition)*FocusVariants + variant. Everything about such an operation is
// drawn from its id like for any other, except the definition it works on, which the id names. A history can thereby
// aim several different operations (different messages, values, faults, argument forms) at the same few definitions:
// what one call leaves behind in state that is kept per definition (descriptor, per-type pools and caches) meets the
// next call on it. Ids below FocusBase choose their definition at random.
const (
	FocusBase     = uint64(1) << 24
	FocusVariants = 10
)

func isFocus(id uint64) bool { return id >= FocusBase && id < SysRejected }

func isPanicOp(id uint64) bool { return id >= PanicBase && id < WrapBase }

// pick returns the definition operation id works on.
func (b *Bank) pick(id uint64, r *model.Rng) *model.StructDef {
	s := b.pickValid(r) // always drawn: the rest of the operation's stream does not depend on the kind of id
	if isFocus(id) {
		return b.valid[int((id-FocusBase)/FocusVariants)%len(b.valid)]
	}
	return s
}

// designed: one of the hand-written shapes of the corpus (the generated ones are called M<n> / R<n>).
func designed(s *model.StructDef) bool {
	n := s.Name
	for _, bulk := range []string{"Chain", "Pub"} {
		// families of many near-identical definitions (a chain of forty, twelve publish-order clusters) serve the
		// schedule worlds; as focus candidates of the history worlds they would only thin out the others
		if len(n) > len(bulk) && n[:len(bulk)] == bulk {
			return false
		}
	}
	if len(n) >= 2 && (n[0] == 'M' || n[0] == 'R') && n[1] >= '0' && n[1] <= '9' {
		return false
	}
	return true
}

// focusPool lists (as indexes into b.valid) the definitions histories may focus on. Profiles that compare with
// fresh-process baselines share one small pool per check run in the quick tier (limited > 0), so that the baselines of
// the focused operations are shared by all histories; otherwise every definition qualifies.
func (b *Bank) focusPool(seed uint64, limited bool) []int {
	var all, des, gen []int
	for i, s := range b.valid {
		if b.Prof == "C09" && !hasRequired(b.C, s, map[string]bool{}) {
			continue
		}
		if b.Prof == "C13" && !(len(s.Name) > 2 && s.Name[:2] == "By") {
			continue
		}
		all = append(all, i)
		if designed(s) {
			des = append(des, i)
		} else {
			gen = append(gen, i)
		}
	}
	switch b.Prof {
	case "C07", "C13", "C17":
	default:
		limited = false
	}
	if !limited || len(all) <= 24 {
		return all
	}
	r := model.NewRng(model.Mix(seed, b.C.Seed, b.profID, 0xf0c05))
	var out []int
	take := func(from []int, n int) {
		for k := 0; k < n && len(from) > 0; k++ {
			j := r.Intn(len(from))
			out = append(out, from[j])
			from[j] = from[len(from)-1]
			from = from[:len(from)-1]
		}
	}
	take(des, len(des)) // every hand-written shape
	take(gen, 8)
	return out
}

// Op derives operation id of this bank.
func (b *Bank) Op(id uint64) (op OpSpec) {
	r := model.NewRng(model.Mix(b.C.Seed, b.profID, id))
	op = OpSpec{ID: id, VSeed: r.Next(), FSeed: r.Next(), Shared: -1}
	op.Budget = budgets[r.Intn(len(budgets))]
	if (b.Prof == "C08" || b.Prof == "C16") && op.Budget > 20000 {
		op.Budget = 20000 // schedule worlds switch tasks every few steps: a value of 2000 structs costs a minute there
	}
	op.Foreign = r.Chance(1, 3)
	roll := r.Intn(100)
	if id >= SysRejected && id < SysArg && b.Prof != "C13" && len(b.rej) > 0 {
		// a call on a rejected definition, named by the id (C13 has its own, richer branch below)
		k := int((id - SysRejected) % uint64(3*len(b.rej)))
		op.Type, op.Kind = b.rej[k/3].Name, []string{"size", "enc", "dec"}[k%3]
		op.Buf, op.Fault = "generous", "none"
		return op
	}
	if id >= DeepBase && len(b.chains) > 0 {
		k := id - DeepBase
		op.Kind, op.Type, op.Buf, op.Fault = "enc", b.chains[int(k/4)%len(b.chains)].Name, "generous", "none"
		op.Deep, op.Foreign = deepLevels[k%4], false
		return op
	}
	if id >= WrapBase && len(b.reqs) > 0 {
		k := id - WrapBase
		op.Kind, op.Type = "wrap", b.reqs[int(k/2)%len(b.reqs)].Name
		op.Omit = []int{300, 66000}[k%2] // past one period of an 8-bit resp. a 16-bit counter
		return op
	}
	if isPanicOp(id) {
		if pan := b.C.Panicky(); len(pan) > 0 {
			k := int(id - PanicBase)
			op.Type = pan[(k/3)%len(pan)].Name
			op.Kind = []string{"size", "enc", "dec"}[k%3]
			op.Buf, op.Fault = "generous", "none"
			return op
		}
	}
	switch b.Prof {
	case "C04":
		// the deciding operation is the size/encode plan; the rest is history context
		if isFocus(id) && roll >= 90 {
			roll %= 90
		}
		switch {
		case roll < 70:
			op.Kind, op.Type = "encplan", b.pick(id, r).Name
			if op.Budget > 5000 && !(op.Budget >= 70000 && r.Chance(1, 4)) {
				op.Budget = 5000 // (a quarter of the largest budgets stay: values that are big in one dimension)
			}
		case roll < 80:
			op.Kind, op.Type, op.Fault = "dec", b.pick(id, r).Name, pickFault(r)
		case roll < 90:
			op.Kind, op.Type = "size", b.pick(id, r).Name
			op.ByValue = r.Chance(1, 2)
		default:
			op.Kind, op.Type = "enc", b.rej[r.Intn(len(b.rej))].Name
		}
	case "C05":
		op.Type = b.pick(id, r).Name
		if isFocus(id) && (id-FocusBase)%FocusVariants < 2 {
			roll = 97 // variants 0 and 1 of a definition: healthy messages
		}
		switch {
		case roll < 35:
			op.Kind = "decenum" // every prefix and every single-byte corruption of one message
			op.Budget = []int{40, 80, 120, 200, 300, 500}[r.Intn(6)]
		case roll < 90:
			op.Kind, op.Fault = "dec", pickFault(r)
			if op.Fault == "none" {
				op.Fault = "count"
			}
			op.Prefill = r.Chance(1, 3) // a reused destination: malformed input must be refused whatever it already holds
		case roll < 96:
			op.Kind, op.Fault = "dec", "bomb"
			if len(b.recur) > 0 && r.Chance(3, 4) {
				op.Type = b.recur[r.Intn(len(b.recur))].Name
			}
		default:
			op.Kind, op.Fault = "dec", "none" // healthy traffic in between
		}
	case "C06":
		op.Kind, op.Type, op.Fault = "dec", b.pick(id, r).Name, "none"
		op.Prefill = r.Chance(1, 5)
		switch {
		case roll < 10:
			op.Fault = "garbage" // benign: bytes after the top-level STOP
		case roll < 24:
			// a decode that fails midway: what it created before failing is still that decode's alone
			op.Fault = []string{"trunc", "trunc", "count", "zerotail", "code"}[r.Intn(5)]
		}
	case "C07", "C08", "C17":
		defer func() {
			// a quarter of the codec operations go to types with the unknown-fields holder, written by a foreign writer
			if (op.Kind == "dec" || op.Kind == "decseq" || op.Kind == "enc" || op.Kind == "size") && len(b.unk) > 0 && id%4 == 1 && !isFocus(id) {
				if sd := b.C.Get(op.Type); sd != nil && !sd.Rejected() {
					op.Type, op.Foreign = b.unk[int(id/4)%len(b.unk)].Name, true
				}
			}
		}()
		if isFocus(id) {
			// focused operations are codec calls on the named definition; the variant number fixes the kind, so that
			// the few variants of a definition always include several different healthy messages
			roll = []int{45, 50, 20, 80, 55, 5, 60, 68, 63, 30}[int((id-FocusBase)%FocusVariants)%10]
		}
		switch {
		case roll < 12:
			op.Kind, op.Type = "size", b.pick(id, r).Name
			op.ByValue = r.Chance(1, 2)
		case roll < 40:
			op.Kind, op.Type = "enc", b.pick(id, r).Name
			op.ByValue = r.Chance(1, 3)
			op.Buf = "exact"
			if r.Chance(1, 5) {
				op.Buf, op.BufK = "short", 1+r.Intn(8)
			}
		case roll < 64:
			op.Kind, op.Type, op.Fault = "dec", b.pick(id, r).Name, "none"
			op.Prefill = r.Chance(1, 4)
		case roll < 72:
			// several messages, some damaged, decoded one after the other into the same destination
			op.Kind, op.Type, op.Fault = "decseq", b.pick(id, r).Name, pickFault(r)
			op.Omit = 2 + r.Intn(3) // number of messages
			if op.Budget > 1500 {
				op.Budget = 1500
			}
		case roll < 88:
			op.Kind, op.Type, op.Fault = "dec", b.pick(id, r).Name, pickFault(r)
			op.Prefill = r.Chance(1, 4)
		case roll < 94 && (b.Prof != "C08" || roll < 91):
			// calls on rejected definitions are part of every history (in schedule worlds: a failing registration
			// must release the registration lock and must not disturb the tasks around it)
			s := b.rej[r.Intn(len(b.rej))]
			op.Type = s.Name
			op.Kind = []string{"size", "enc", "dec"}[r.Intn(3)]
			op.Buf = "generous"
		default:
			if b.Prof == "C17" && roll >= 98 {
				// arguments the codec refuses: a legacy control must not turn them into accepted ones
				op.Kind, op.Arg = "arg", []string{"ptrptr", "ptrptr", "nil-typed-ptr", "struct-value", "nil", "ptr-int"}[r.Intn(6)]
				op.Type = b.pick(id, r).Name
				op.Legacy = []string{"size", "enc", "dec"}[r.Intn(3)]
				if op.Arg == "struct-value" {
					op.Legacy = "dec"
				}
			} else if b.Prof == "C17" {
				op.Kind, op.Legacy = "legacy", legacyCalls[r.Intn(len(legacyCalls))]
				op.Type = b.C.Structs[r.Intn(len(b.C.Structs))].Name
			} else {
				op.Kind, op.Type = "enc", b.pick(id, r).Name
				op.Buf = "generous"
			}
		}
	case "C09":
		s := b.reqs[r.Intn(len(b.reqs))]
		if isFocus(id) {
			s = b.pick(id, r)
		}
		op.Type = s.Name
		switch {
		case roll < 75:
			op.Kind, op.Fault = "dec", "none"
			op.Foreign = r.Chance(1, 2)
			if r.Chance(3, 5) {
				op.Omit = 1 + r.Intn(3)
			}
			// whether a required field was transmitted is a fact about the message, not about what the destination
			// happens to hold: a third of the decodes go into a destination that already has every field set
			op.Prefill = r.Chance(1, 3)
		default:
			op.Kind, op.Buf = "enc", "generous"
			op.ByValue = r.Chance(1, 4)
			op.Arg = []string{"value", "zero", "sparse"}[r.Intn(3)]
		}
	case "C13":
		if isFocus(id) {
			roll = 99
		}
		switch {
		case id >= SysArg && id < PanicBase:
			k := int(id - SysArg)
			op.Kind, op.Arg = "arg", argKinds[(k/3)%len(argKinds)]
			op.Legacy = []string{"size", "enc", "dec"}[k%3]
			op.Type = b.pickValid(r).Name
			if len(b.byst) > 0 && r.Chance(1, 2) {
				op.Type = b.byst[r.Intn(len(b.byst))].Name
			}
			if op.Arg == "struct-value" {
				op.Legacy = "dec"
			}
		case id >= SysRejected:
			// systematic part of the bank: every rejected definition through every entry point. No fresh-process
			// baseline is needed for these (the verdict is known by construction), so the quick tier's bank prefix
			// does not apply to them.
			k := int((id - SysRejected) % uint64(3*len(b.rej)))
			s := b.rej[k/3]
			op.Type = s.Name
			op.Kind = []string{"size", "enc", "dec"}[k%3]
			op.ByValue = op.Kind != "dec" && r.Chance(1, 6)
			op.Buf = "generous"
		case roll < 60:
			s := b.rej[r.Intn(len(b.rej))]
			op.Type = s.Name
			op.Kind = []string{"size", "enc", "dec"}[r.Intn(3)]
			op.ByValue = r.Chance(1, 4)
			op.Buf = "generous"
		case roll < 72:
			op.Kind, op.Arg = "arg", argKinds[r.Intn(len(argKinds))]
			op.Type = b.pick(id, r).Name
			if len(b.byst) > 0 && r.Chance(1, 2) {
				op.Type = b.byst[r.Intn(len(b.byst))].Name // a type that the same histories also use validly
			}
			op.Legacy = []string{"size", "enc", "dec"}[r.Intn(3)]
			if op.Arg == "struct-value" {
				op.Legacy = "dec" // a struct passed by value is a legal argument for the other two entry points
			}
		default:
			// bystanders and ordinary valid types
			s := b.pick(id, r)
			if len(b.byst) > 0 && r.Chance(2, 3) && !isFocus(id) {
				s = b.byst[r.Intn(len(b.byst))]
			}
			op.Type = s.Name
			op.Kind = []string{"size", "enc", "dec"}[r.Intn(3)]
			op.Buf, op.Fault = "exact", "none"
		}
	case "C16":
		op.Type = b.pick(id, r).Name
		if isFocus(id) {
			// the variant fixes the kind: encodes (exact, by value, generous), a size, decodes, a re-encode, a sequence
			roll = []int{10, 40, 60, 75, 90, 20, 68, 5, 30, 55}[int((id-FocusBase)%FocusVariants)%10]
		}
		switch {
		case roll < 35:
			op.Kind, op.Buf = "enc", []string{"exact", "generous", "generous", "short", "shortspare", "shortspare"}[r.Intn(6)]
			op.BufK = 1 + r.Intn(5)
			op.ByValue = r.Chance(1, 3)
		case roll < 50:
			op.Kind = "size"
			op.ByValue = r.Chance(1, 3)
		case roll < 66:
			op.Kind, op.Fault = "dec", "none"
			if r.Chance(1, 4) {
				op.Fault = pickFault(r)
			}
		case roll < 72:
			// several messages from a foreign writer decoded one after the other into the same object, each from
			// its own buffer: a later decode must not write into the buffer an earlier one arrived in either (what
			// the object still references of it - nocopy views, or anything it wrongly kept)
			op.Kind, op.Fault, op.Foreign = "decseq", "none", true
			op.Omit = 2 + r.Intn(3)
			if len(b.unk) > 0 && r.Chance(2, 3) && !isFocus(id) {
				op.Type = b.unk[r.Intn(len(b.unk))].Name
				if len(b.unkNC) > 0 && r.Chance(1, 2) {
					op.Type = b.unkNC[r.Intn(len(b.unkNC))].Name
				}
			}
			if op.Budget > 1500 {
				op.Budget = 1500
			}
		case roll < 84:
			// encode what was decoded from a foreign writer (bool bytes other than 0/1 kept as they came, unknown
			// fields retained, nocopy views into the message): the encoder must leave that object alone too
			op.Kind, op.Fault, op.Foreign = "reenc", "none", true
		default:
			op.Kind, op.Buf = "enc", "generous"
		}
	default:
		panic("unknown profile " + b.Prof)
	}
	return op
}

var legacyCalls = []string{"pretouch", "pretouch-opts", "pretouch-nil", "pretouch-nonstruct", "pretouch-ptrptr", "nojit", "nojit", "setdepth", "setil", "getstats", "options"}
var argKinds = []string{"nil", "int", "string", "slice", "map", "ptrptr", "ptr-int", "nil-typed-ptr", "func", "struct-of-nonstruct-ptr", "struct-value", "struct-value", "ptrptr"}

var faultKinds = []string{"none", "trunc", "trunc", "flip", "flip", "count", "count", "code", "ftype", "splice", "zerotail", "garbage"}

func pickFault(r *model.Rng) string { return faultKinds[r.Intn(len(faultKinds))] }

// Related returns s and every valid struct reachable from it.
func Related(c *model.Corpus, s *model.StructDef) []*model.StructDef {
	seen := map[string]bool{}
	var out []*model.StructDef
	var walk func(s *model.StructDef)
	walk = func(s *model.StructDef) {
		if s == nil || seen[s.Name] {
			return
		}
		seen[s.Name] = true
		out = append(out, s)
		for _, f := range s.Fields {
			var names []string
			collectStructs(f.T, &names)
			for _, n := range names {
				walk(c.Get(n))
			}
		}
	}
	walk(s)
	return out
}

func collectStructs(t *model.T, out *[]string) {
	switch t.K {
	case model.Struct:
		*out = append(*out, t.S)
	case model.List, model.Set:
		collectStructs(t.Elem, out)
	case model.Map:
		collectStructs(t.Key, out)
		collectStructs(t.Elem, out)
	}
}

// ---------------------------------------------------------------- histories

// Derive builds the run specification for (profile, corpus, verif seed, run index).
func Derive(prof string, c *model.Corpus, seed uint64, run int, bankLimit uint64) *RunSpec {
	b := NewBank(prof, c)
	if bankLimit > 0 && bankLimit < b.Size {
		b.Size = bankLimit // quick tier: a prefix of the bank, so that fresh-process baselines are shared by all histories
	}
	rs := &RunSpec{Prof: prof, Corpus: c.Seed, Seed: model.Mix(seed, c.Seed, uint64(run), b.profID), Run: run, Pool: "sim", Tasks: 1}
	r := model.NewRng(model.Mix(rs.Seed, 0x415))
	rs.Sched.Strategy = "nonpreemptive"
	soak := false
	nops := 20 + r.Intn(60)
	pickOp := func() uint64 { return uint64(r.Intn(int(b.Size))) }
	switch prof {
	case "C04":
		rs.Tasks = 1 + r.Intn(2)
		nops = 10 + r.Intn(25)
	case "C05":
		nops = 12 + r.Intn(20)
	case "C06":
		rs.Tasks = 1 + r.Intn(3)
		nops = 30 + r.Intn(90)
		if r.Chance(1, 3) {
			rs.Sched.GCEvery = int64(20 + r.Intn(400))
		}
	case "C07":
		nops = 30 + r.Intn(80)
		if r.Chance(1, 10) {
			soak = true // a long single-task run around a wrap operation (see C09)
			rs.Tasks, rs.Pool, nops = 1, "lifo", 6+r.Intn(10)
		}
		if np := len(c.Panicky()); np > 0 && r.Chance(1, 3) {
			// a third of the histories contain calls that fail with the user's own panic (InitDefault), several on
			// the same definition: a failed call must not change what the next one on it returns
			k := r.Intn(np)
			for try := 0; try < 4 && len(c.Panicky()[k].Name) < 9; try++ {
				k = r.Intn(np) // prefer the holders (HoldPanicInit*): their registration gets under way before it fails
			}
			random := pickOp
			pickOp = func() uint64 {
				if r.Chance(1, 12) {
					return PanicBase + uint64(3*k+r.Intn(3))
				}
				return random()
			}
		}
	case "C09":
		rs.Tasks = 1 + r.Intn(2)
		nops = 40 + r.Intn(80)
		if r.Chance(1, 8) {
			// long runs: one task, the pool behaving like the real one does for a single goroutine, and in the middle
			// of a short history one operation that repeats a rejected message tens of thousands of times - whatever
			// is counted, stamped or cached per use of a pooled object goes through a full period of small counters
			soak = true
			rs.Tasks, rs.Pool, nops = 1, "lifo", 6+r.Intn(10)
		}
	case "C13":
		rs.Tasks = 1 + r.Intn(3)
		nops = 30 + r.Intn(60)
		random := pickOp
		pickOp = func() uint64 {
			switch roll := r.Intn(20); {
			case roll < 8:
				return SysRejected + uint64(r.Intn(3*len(b.rej)))
			case roll < 10:
				return SysArg + uint64(r.Intn(3*len(argKinds)))
			}
			return random()
		}
	case "C17":
		rs.Tasks = 1 + r.Intn(3)
		nops = 30 + r.Intn(60)
	case "C08", "C16":
		rs.Tasks = 2 + r.Intn(7)
		if prof == "C16" {
			rs.Tasks = 2 + r.Intn(3)
		}
	}
	if rs.Tasks > 1 {
		pickStrategy(r, &rs.Sched)
	}
	if r.Chance(1, 12) && prof != "C08" && prof != "C16" && !soak {
		rs.Pool = "real" // fidelity runs: the runtime's own sync.Pool
	}
	switch prof {
	case "C08":
		deriveC08(rs, b, r)
		return rs
	case "C16":
		deriveC16(rs, b, r)
		return rs
	}
	// three quarters of the histories aim half of their operations at one to three definitions (see FocusBase)
	var focus []int
	if r.Chance(3, 4) {
		if pool := b.focusPool(seed, bankLimit > 0); len(pool) > 0 {
			k := 1 + r.Intn(3)
			if prof == "C17" {
				k = 4 + r.Intn(5) // a start-up warm-up names many types (see retargetLegacy)
			}
			for ; k > 0; k-- {
				focus = append(focus, pool[r.Intn(len(pool))])
			}
		}
	}
	// C05: a quarter of the histories contain a rejected registration between healthy decodes of a definition that
	// shares nested definitions with the rejected one - whatever the failed registration undoes must not take
	// anything away from definitions that are in use ("every accepted destination type", whatever happened before)
	var interlude []uint64
	if prof == "C05" && len(b.byst) > 0 && r.Chance(1, 4) {
		by := b.byst[r.Intn(len(b.byst))]
		var has []int
		for i, s := range b.rej {
			if len(s.Name) > 3 && s.Name[:3] == "Has" {
				has = append(has, i)
			}
		}
		for i, s := range b.valid {
			if s == by && len(has) > 0 {
				f := FocusBase + uint64(i)*FocusVariants
				rj := SysRejected + uint64(3*has[r.Intn(len(has))]+1) // an encode: C05 judges decodes, and only on accepted types
				interlude = []uint64{f, f + 1, rj, f, f + 1}
			}
		}
	}
	// C07: a history that focuses on a bystander of a rejected container (ByVal<n> / ByHold<n>) also calls on that
	// container (Has<n>) early on: what its failed registration leaves behind is part of the bystander's call history
	if prof == "C07" && len(interlude) == 0 {
		for _, fi := range focus {
			n := b.valid[fi].Name
			num := ""
			switch {
			case len(n) > 5 && n[:5] == "ByVal":
				num = n[5:]
			case len(n) > 6 && n[:6] == "ByHold":
				num = n[6:]
			}
			if num == "" {
				continue
			}
			for i, s := range b.rej {
				if s.Name == "Has"+num {
					rj := SysRejected + uint64(3*i)
					interlude = []uint64{rj + uint64(r.Intn(3)), rj + 1}
				}
			}
		}
	}
	// history worlds: operations dealt to tasks; sometimes an operation is repeated later in the history
	// (same arguments, different predecessors) and events are sprinkled in.
	var recent []uint64
	for i := 0; i < nops; i++ {
		st := Step{Slot: i, Task: r.Intn(rs.Tasks)}
		switch {
		case len(interlude) > 0 && prof == "C07" && i >= 2 && i < 2+len(interlude):
			st.Op = interlude[i-2]
		case len(interlude) > 0 && prof != "C07" && i >= nops/3 && i < nops/3+len(interlude):
			st.Op = interlude[i-nops/3]
		case soak && (i == nops/2 || i == nops-1):
			st.Op = WrapBase + uint64(r.Intn(2*len(b.reqs)))
		case len(recent) > 0 && r.Chance(1, 5):
			st.Op = recent[r.Intn(len(recent))]
		case len(focus) > 0 && r.Chance(1, 2):
			st.Op = FocusBase + uint64(focus[r.Intn(len(focus))])*FocusVariants + uint64(r.Intn(FocusVariants))
			recent = append(recent, st.Op)
		default:
			st.Op = pickOp()
			recent = append(recent, st.Op)
		}
		ev := r.Intn(100)
		switch prof {
		case "C06":
			switch {
			case ev < 12:
				st.Ev = "gc"
			case ev < 24:
				st.Ev, st.Arg = "scribble", r.Intn(1<<20)
			case ev < 32:
				st.Ev, st.Arg = "drop", r.Intn(1<<20)
			case ev < 40:
				st.Ev = "recheck"
			case ev < 44:
				st.Ev = "flush"
			}
		case "C05", "C04":
			if ev < 3 {
				st.Ev = "flush"
			}
		default:
			switch {
			case ev < 4:
				st.Ev = "flush"
			case ev < 7:
				st.Ev = "gc"
			}
		}
		rs.Hist = append(rs.Hist, st)
	}
	if rs.Tasks > 1 {
		rs.Sched.StartAt = make([]int64, rs.Tasks)
		for i := 1; i < rs.Tasks; i++ {
			rs.Sched.StartAt[i] = int64(r.Intn(400))
		}
	}
	if prof == "C17" {
		retargetLegacy(rs, b, r, focus)
	}
	return rs
}

// retargetLegacy places the legacy controls where they could matter: a Pretouch names the type of an operation that
// comes later in the same history (the warm-up idiom of RPC frameworks), of an earlier one, or a random definition
// (rejected ones included); some are directly followed by a call on a rejected definition.
func retargetLegacy(rs *RunSpec, b *Bank, r *model.Rng, focus []int) {
	var rejOps []uint64
	for id := uint64(0); id < b.Size && len(rejOps) < 40; id++ {
		if op := b.Op(id); op.Kind != "legacy" && b.C.Get(op.Type) != nil && b.C.Get(op.Type).Rejected() {
			rejOps = append(rejOps, id)
		}
	}
	var out []Step
	for i, st := range rs.Hist {
		op := b.Op(st.Op)
		if st.Ev == "" && op.Kind == "legacy" {
			var cands []uint64
			lo, hi := i+1, len(rs.Hist)
			if r.Chance(1, 4) {
				lo, hi = 0, i
			}
			for j := lo; j < hi; j++ {
				if o := b.Op(rs.Hist[j].Op); rs.Hist[j].Ev == "" && o.Kind != "legacy" {
					cands = append(cands, rs.Hist[j].Op)
				}
			}
			if len(cands) > 0 && r.Chance(4, 5) {
				st.Arg = int(cands[r.Intn(len(cands))]) + 1 // +1: 0 means "the operation's own type"
			}
			out = append(out, st)
			if len(rejOps) > 0 && r.Chance(1, 3) {
				out = append(out, Step{Task: st.Task, Op: rejOps[r.Intn(len(rejOps))]})
			}
			continue
		}
		out = append(out, st)
	}
	// storms: every task starts with the same setter (or another legacy control) at about the same time
	if rs.Tasks > 1 && r.Chance(3, 4) {
		byKind := map[string][]uint64{}
		for id := uint64(0); id < b.Size; id++ {
			if op := b.Op(id); op.Kind == "legacy" && len(byKind[op.Legacy]) < 6 {
				byKind[op.Legacy] = append(byKind[op.Legacy], id)
			}
		}
		kinds := []string{"getstats", "pretouch", "setdepth", "setil", "nojit", "pretouch-opts"}
		var pre []Step
		for t := 0; t < rs.Tasks; t++ {
			// every task: a metrics poll, a warm-up and a setter, in a seeded order, before and between its first uses
			for k := 0; k < 3; k++ {
				ids := byKind[kinds[(t+k+r.Intn(2))%len(kinds)]]
				if len(ids) > 0 {
					pre = append(pre, Step{Task: t, Op: ids[r.Intn(len(ids))]})
				}
			}
		}
		if len(pre) > 0 {
			out = append(pre, out...)
			for i := range rs.Sched.StartAt {
				rs.Sched.StartAt[i] = int64(r.Intn(12))
			}
		}
	}
	// the start-up warm-up of RPC frameworks: before anything else, Pretouch every type the process is going to use
	// (here: the definitions this history focuses on) - the legacy call is then each type's very first use
	if len(focus) > 0 && r.Chance(2, 3) {
		var pre []uint64
		for id := uint64(0); id < b.Size && len(pre) < 4; id++ {
			if op := b.Op(id); op.Kind == "legacy" && (op.Legacy == "pretouch" || op.Legacy == "pretouch-opts") {
				pre = append(pre, id)
			}
		}
		if len(pre) > 0 {
			var warm []Step
			for _, f := range focus {
				warm = append(warm, Step{Task: r.Intn(rs.Tasks), Op: pre[r.Intn(len(pre))], Arg: int(FocusBase+uint64(f)*FocusVariants) + 1})
			}
			out = append(warm, out...)
		}
	}
	for i := range out {
		out[i].Slot = i
	}
	rs.Hist = out
}

func pickStrategy(r *model.Rng, s *SchedSpec) {
	switch r.Intn(10) {
	case 0:
		s.Strategy, s.Den = "uniform", 2
	case 1, 2:
		s.Strategy, s.Den = "uniform", 8
	case 3:
		s.Strategy, s.Den = "uniform", 64
	case 4:
		s.Strategy, s.Den = "uniform", 256
	case 5, 6:
		s.Strategy = "syncbiased"
	case 7, 8:
		s.Strategy, s.PCTDepth = "pct", 1+r.Intn(3)
	default:
		s.Strategy = "nonpreemptive"
	}
}

// deriveC08: several rounds per process. Each round: 2-8 tasks and a cluster of mutually nested types nobody in
// this process has used yet; one or two tasks start with first uses of the outer types, the others run steady-state
// traffic on types of earlier rounds and arrive at the cluster's outer and inner types at seeded later steps; some
// rounds are pure storms (every task first-uses the same type at step 0).
func deriveC08(rs *RunSpec, b *Bank, r *model.Rng) {
	c := b.C
	if r.Chance(1, 6) && !verifsim.RaceBuild && deriveCrowd(rs, b, r) {
		return // (crowds only in the plain builds: two hundred goroutines under the race detector cost a minute)
	}
	used := map[string]bool{}
	// index the (possibly limited) bank by type once
	byType := map[string][]uint64{}
	for id := uint64(0); id < b.Size; id++ {
		op := b.Op(id)
		byType[op.Type] = append(byType[op.Type], id)
	}
	// every valid definition also has three of its focus operations (the prefix of the bank that the quick tier uses holds
	// less than one operation per definition): rounds do not depend on what the prefix happens to contain
	for i, sd := range b.valid {
		for _, v := range []uint64{0, 2, 4} { // two healthy decodes and an encode (each distinct operation costs a baseline)
			byType[sd.Name] = append(byType[sd.Name], FocusBase+uint64(i)*FocusVariants+v)
		}
	}
	var rejIDs []uint64 // calls on rejected definitions: a failing registration in the middle of the others
	for _, sd := range b.rej {
		rejIDs = append(rejIDs, byType[sd.Name]...)
	}
	npan := len(c.Panicky())
	var steady []uint64 // operations on types used in earlier rounds
	rs.Rounds = 6 + r.Intn(7)
	rs.Sched.StartAt = make([]int64, rs.Tasks*rs.Rounds)
	slot := 0
	for round := 0; round < rs.Rounds; round++ {
		var root *model.StructDef
		for try := 0; try < 80; try++ {
			s := b.valid[r.Intn(len(b.valid))]
			if len(b.recur) > 0 && try < 40 && r.Chance(1, 2) {
				s = b.recur[r.Intn(len(b.recur))] // mutually recursive clusters: where publication order matters most
			}
			if used[s.Name] || len(byType[s.Name]) == 0 {
				continue
			}
			if len(Related(c, s)) >= 2 || try > 60 {
				root = s
				break
			}
		}
		if root == nil {
			rs.Rounds = round
			break
		}
		var onRoot, onCluster []uint64
		onRoot = byType[root.Name]
		for _, s := range Related(c, root) {
			if !used[s.Name] || s == root {
				onCluster = append(onCluster, byType[s.Name]...)
			}
		}
		if len(onCluster) == 0 {
			onCluster = onRoot
		}
		storm := r.Chance(1, 5)
		firsts := 1 + r.Intn(2)
		for t := 0; t < rs.Tasks; t++ {
			n := 2 + r.Intn(6)
			first := t < firsts
			if !storm && !first {
				rs.Sched.StartAt[round*rs.Tasks+t] = int64(r.Intn(1200))
			}
			for i := 0; i < n; i++ {
				st := Step{Slot: slot, Task: t, Round: round}
				slot++
				switch {
				case (storm || first) && i == 0:
					st.Op = onRoot[r.Intn(len(onRoot))]
				case !first && !storm && i < n/2 && len(steady) > 0:
					st.Op = steady[r.Intn(len(steady))]
				default:
					st.Op = onCluster[r.Intn(len(onCluster))]
				}
				if len(rejIDs) > 0 && i > 0 && r.Chance(1, 12) {
					st.Op = rejIDs[r.Intn(len(rejIDs))]
				}
				if npan > 0 && i > 0 && r.Chance(1, 25) {
					// a call that fails with the user's own panic in the middle of everybody else's first uses: whatever
					// frugal held at that moment (the registration lock) must have been released
					st.Op = PanicBase + uint64(r.Intn(3*npan))
				}
				rs.Hist = append(rs.Hist, st)
			}
		}
		for _, s := range Related(c, root) {
			if !used[s.Name] {
				used[s.Name] = true
				if ids := byType[s.Name]; len(ids) > 0 && len(steady) < 400 {
					steady = append(steady, ids...)
				}
			}
		}
	}
}

// deriveC16: the same value objects and input buffers are handed read-only to several tasks; several rounds.
// deriveCrowd: one round in which 70-140 tasks each make one or two calls on a few definitions whose structs nest
// one another with required fields at several levels, all starting at once under a high switch rate - so that many
// calls are in flight, each holding what a call holds while it descends (scratch objects per nesting level). Whatever
// a call takes from a bounded supply and keeps while it waits for more of it shows here and not with eight tasks.
func deriveCrowd(rs *RunSpec, b *Bank, r *model.Rng) bool {
	c := b.C
	var cand []int
	for i, s := range b.valid {
		if !hasRequired(c, s, map[string]bool{}) {
			continue
		}
		nested := 0
		for _, q := range Related(c, s) {
			if q != s && hasRequired(c, q, map[string]bool{}) {
				nested++
			}
		}
		if nested >= 1 {
			cand = append(cand, i)
		}
	}
	if len(cand) == 0 {
		return false
	}
	rs.Tasks = 130 + r.Intn(91)
	rs.Rounds = 1
	rs.Sched.Strategy, rs.Sched.Den, rs.Sched.PCTDepth = "uniform", []int{2, 2, 8}[r.Intn(3)], 0
	rs.Sched.StartAt = make([]int64, rs.Tasks)
	var pool []uint64
	for k := 1 + r.Intn(3); k > 0; k-- {
		idx := cand[r.Intn(len(cand))]
		for _, v := range []uint64{0, 1, 4, 6, 8} { // the healthy decodes of the definition
			pool = append(pool, FocusBase+uint64(idx)*FocusVariants+v)
		}
	}
	slot := 0
	for t := 0; t < rs.Tasks; t++ {
		for i := 1 + r.Intn(2); i > 0; i-- {
			rs.Hist = append(rs.Hist, Step{Slot: slot, Task: t, Op: pool[r.Intn(len(pool))]})
			slot++
		}
	}
	return true
}

func deriveC16(rs *RunSpec, b *Bank, r *model.Rng) {
	var des []int
	for i, s := range b.valid {
		if designed(s) {
			des = append(des, i)
		}
	}
	rs.Rounds = 3 + r.Intn(4)
	rs.Sched.StartAt = make([]int64, rs.Tasks*rs.Rounds)
	slot, shared := 0, 0
	recTask, recRound, recIdx, recK := -1, -1, 0, 0
	// (its own stream: the rest of the history is what it would be without this sequence)
	rr := model.NewRng(model.Mix(rs.Seed, rs.Corpus, uint64(rs.Run), 0x4ec0))
	if len(b.chains) > 0 && rr.Chance(1, 3) {
		recK = rr.Intn(len(b.chains))
		if b.nchDes > 0 && rr.Chance(1, 2) {
			recK = rr.Intn(b.nchDes) // the hand-written ones contain themselves directly
		}
		for i, s := range b.valid {
			if s == b.chains[recK] {
				recTask, recRound, recIdx = rr.Intn(rs.Tasks), rr.Intn(rs.Rounds-1), i
			}
		}
	}
	for round := 0; round < rs.Rounds; round++ {
		nshared := 1 + r.Intn(3)
		var sharedOps []uint64
		for len(sharedOps) < nshared {
			id := uint64(r.Intn(int(b.Size)))
			op := b.Op(id)
			if op.Kind == "enc" || op.Kind == "size" || op.Kind == "dec" {
				sharedOps = append(sharedOps, id) // damaged messages too: a decoder must not write to its input either way
			}
		}
		for t := 0; t < rs.Tasks; t++ {
			if t > 0 {
				rs.Sched.StartAt[round*rs.Tasks+t] = int64(r.Intn(60))
			}
			n := 3 + r.Intn(6)
			if t == recTask && round == recRound {
				// encodes of a definition that contains itself, around the encode of a very deep value of it: what
				// the extreme call leaves behind in the definition's state meets the ordinary values again
				f := FocusBase + uint64(recIdx)*FocusVariants
				var ord []uint64 // the ordinary values: small ones (a tree-shaped value of such a definition can have megabytes)
				for _, id := range []uint64{f, f + 5, f + 7} {
					op := b.Op(id)
					w := model.GenValue(b.C, b.C.Get(op.Type), op.VSeed, model.VOpt{Budget: op.Budget, Foreign: op.Foreign})
					if len(w.Bytes()) <= 8192 {
						ord = append(ord, id)
					}
				}
				if len(ord) == 0 {
					ord = []uint64{DeepBase + uint64(4*recK)} // the shortest chain
				}
				for _, id := range []uint64{ord[0], ord[1%len(ord)], DeepBase + uint64(4*recK+rr.Intn(4)), ord[2%len(ord)], ord[0]} {
					rs.Hist = append(rs.Hist, Step{Slot: slot, Task: t, Round: round, Op: id})
					slot++
				}
			}
			for i := 0; i < n; i++ {
				st := Step{Slot: slot, Task: t, Round: round}
				slot++
				if r.Chance(2, 3) {
					k := r.Intn(nshared)
					st.Op, st.Ev, st.Arg = sharedOps[k], "shared", shared+k
				} else if len(des) > 0 && r.Chance(1, 3) {
					// a hand-written shape, through one of its ten variants
					st.Op = FocusBase + uint64(des[r.Intn(len(des))])*FocusVariants + uint64(r.Intn(FocusVariants))
				} else {
					st.Op = uint64(r.Intn(int(b.Size)))
				}
				rs.Hist = append(rs.Hist, st)
			}
		}
		shared += nshared
	}
}

func (s *RunSpec) String() string {
	return fmt.Sprintf("%s corpus=%d run=%d tasks=%d steps=%d strat=%s pool=%s", s.Prof, s.Corpus, s.Run, s.Tasks, len(s.Hist), s.Sched.Strategy, s.Pool)
}

// Describe renders an operation for humans (reports, evidence samples).
func Describe(c *model.Corpus, op *OpSpec) string {
	sd := c.Get(op.Type)
	s := fmt.Sprintf("op %d: %s %s", op.ID, op.Kind, op.Type)
	if sd != nil {
		if sd.Rejected() {
			s += " [rejected definition: " + sd.Invalid + "]"
		} else {
			s += " " + sd.Shape()
		}
	}
	if op.ByValue {
		s += " by-value"
	}
	if op.Buf != "" {
		s += fmt.Sprintf(" buf=%s/%d", op.Buf, op.BufK)
	}
	if op.Fault != "" {
		s += " fault=" + op.Fault
	}
	if op.Omit > 0 {
		s += fmt.Sprintf(" omit-required=%d", op.Omit)
	}
	if op.Legacy != "" {
		s += " legacy=" + op.Legacy
	}
	if op.Arg != "" {
		s += " arg=" + op.Arg
	}
	if sd != nil && !sd.Rejected() && (op.Kind == "enc" || op.Kind == "dec" || op.Kind == "size" || op.Kind == "encplan") {
		w := model.GenValue(c, sd, op.VSeed, model.VOpt{Budget: op.Budget, Foreign: op.Foreign, Deep: op.Deep})
		if op.Deep > 0 {
			s += fmt.Sprintf(" value=(a chain %d levels deep)", w.Depth())
		} else {
			s += " value=" + w.String()
		}
	}
	return s
}
