package world

import (
	"encoding/json"
	"errors"
	"fmt"
	"os"
	"reflect"
	"runtime"
	"runtime/debug"
	"runtime/metrics"
	"strconv"
	"strings"
	"sync/atomic"
	"syscall"
	"unsafe"

	"github.com/cloudwego/frugal"
	fdebug "github.com/cloudwego/frugal/debug"
	"github.com/cloudwego/frugal/internal/verifsim"
	"github.com/cloudwego/frugal/internal/verifsim/ssync"
	"github.com/cloudwego/frugal/verifharness/corpus"
	"github.com/cloudwego/frugal/verifharness/model"
	"github.com/cloudwego/gopkg/protocol/thrift"
)

// ---------------------------------------------------------------- journal

// Rec is one journal record (JSON line on stdout).
type Rec struct {
	K    string `json:"k"` // spec | B | E | V | N | end
	Slot int    `json:"slot,omitempty"`
	Task int    `json:"task,omitempty"`
	Op   uint64 `json:"op,omitempty"`
	Ev   string `json:"ev,omitempty"`
	Step int64  `json:"step,omitempty"`
	// E
	Cls   string `json:"cls,omitempty"` // ok | err | panic | event
	N     int    `json:"n,omitempty"`
	D     string `json:"d,omitempty"`   // digest of the canonical result
	Err   string `json:"err,omitempty"` // error / panic text
	Steps int64  `json:"steps,omitempty"`
	Alloc uint64 `json:"alloc,omitempty"`
	Evals int    `json:"evals,omitempty"` // evaluations of the deciding oracle inside this operation
	Tag   string `json:"tag,omitempty"`   // distinctness class of this operation for the evidence
	// V / N
	Prop string `json:"prop,omitempty"`
	Sig  string `json:"sig,omitempty"`
	Msg  string `json:"msg,omitempty"`
	// spec / end
	Spec *RunSpec               `json:"spec,omitempty"`
	End  map[string]interface{} `json:"end,omitempty"`
}

type journal struct{ fd uintptr }

// put writes one record. Operation records (B, b, E) are encoded by hand: encoding/json and fmt recycle
// scratch objects through pools shared by all tasks, which in harness mode (sync events ignored) the race
// detector would report as races inside the standard library.
//
//go:norace
func (j *journal) put(r *Rec) {
	var b []byte
	switch r.K {
	case "B", "b", "E":
		b = make([]byte, 0, 256)
		b = append(b, `{"k":"`...)
		b = append(b, r.K...)
		b = append(b, '"')
		num := func(k string, v int64) {
			if v != 0 {
				b = append(b, ',', '"')
				b = append(b, k...)
				b = append(b, '"', ':')
				b = strconv.AppendInt(b, v, 10)
			}
		}
		str := func(k, v string) {
			if v != "" {
				b = append(b, ',', '"')
				b = append(b, k...)
				b = append(b, '"', ':')
				b = appendJSONString(b, v)
			}
		}
		num("slot", int64(r.Slot))
		num("task", int64(r.Task))
		if r.Op != 0 {
			b = append(b, `,"op":`...)
			b = strconv.AppendUint(b, r.Op, 10)
		}
		num("step", r.Step)
		str("cls", r.Cls)
		num("n", int64(r.N))
		str("d", r.D)
		str("err", r.Err)
		num("steps", r.Steps)
		if r.Alloc != 0 {
			b = append(b, `,"alloc":`...)
			b = strconv.AppendUint(b, r.Alloc, 10)
		}
		num("evals", int64(r.Evals))
		str("tag", r.Tag)
		str("msg", r.Msg)
		b = append(b, '}', '\n')
	default:
		b, _ = json.Marshal(r)
		b = append(b, '\n')
	}
	syscall.Write(int(j.fd), b)
}

func appendJSONString(b []byte, s string) []byte {
	const hex = "0123456789abcdef"
	b = append(b, '"')
	for i := 0; i < len(s); i++ {
		c := s[i]
		switch {
		case c == '"' || c == '\\':
			b = append(b, '\\', c)
		case c < 0x20 || c >= 0x7f:
			b = append(b, '\\', 'u', '0', '0', hex[c>>4], hex[c&15])
		default:
			b = append(b, c)
		}
	}
	return append(b, '"')
}

// ---------------------------------------------------------------- guarded input buffers

var pageSize = os.Getpagesize()

type guarded struct {
	region []byte // whole mapping, last page is PROT_NONE
	usable int
}

func newGuarded(max int) *guarded {
	n := (max + pageSize - 1) / pageSize * pageSize
	if n == 0 {
		n = pageSize
	}
	m, err := syscall.Mmap(-1, 0, n+pageSize, syscall.PROT_READ|syscall.PROT_WRITE, syscall.MAP_ANON|syscall.MAP_PRIVATE)
	if err != nil {
		verifsim.Fatalf("mmap: %v", err)
	}
	if err := syscall.Mprotect(m[n:], syscall.PROT_NONE); err != nil {
		verifsim.Fatalf("mprotect: %v", err)
	}
	return &guarded{region: m, usable: n}
}

// place copies b so that it ends exactly at the guard page; len == cap.
func (g *guarded) place(b []byte) []byte {
	if len(b) > g.usable {
		verifsim.Fatalf("guarded buffer too small")
	}
	off := g.usable - len(b)
	copy(g.region[off:g.usable], b)
	return g.region[off:g.usable:g.usable]
}

// placeWithTail copies b followed by tail so that tail ends at the guard page and returns b's copy with the tail as
// spare capacity (len(b), cap len(b)+len(tail)): what a reader gets that was handed buf[:k] of a larger receive buffer.
// Bytes beyond len are not part of the input, whatever the capacity says.
func (g *guarded) placeWithTail(b, tail []byte) []byte {
	if len(b)+len(tail) > g.usable {
		verifsim.Fatalf("guarded buffer too small")
	}
	off := g.usable - len(b) - len(tail)
	copy(g.region[off:], b)
	copy(g.region[off+len(b):g.usable], tail)
	return g.region[off : off+len(b) : g.usable]
}

// ---------------------------------------------------------------- output arenas with canaries

// canaryAt is what the byte at arena offset i holds before the call: a position-dependent pattern without short
// periods, so that not only stores of new data but also permutations and read-modify-writes of what the buffer
// already held (a byte-swap of a few words past the message, say) show - a uniform fill is blind to those.
func canaryAt(i int) byte {
	x := uint32(i+1) * 2654435761
	x ^= x >> 15
	x *= 2246822519
	return byte(x >> 24)
}

type outArena struct {
	mem           []byte
	pre, ln, capa int
}

func newArena(ln, capa int) *outArena {
	if capa < ln {
		capa = ln
	}
	a := &outArena{pre: 32, ln: ln, capa: capa}
	a.mem = make([]byte, a.pre+capa+32)
	for i := range a.mem {
		a.mem[i] = canaryAt(i)
	}
	return a
}

func (a *outArena) buf() []byte { return a.mem[a.pre : a.pre+a.ln : a.pre+a.capa] }

// intact reports the first broken canary outside buf[:keep] ("" if none).
func (a *outArena) intact(keep int) string {
	for i, c := range a.mem {
		if c != canaryAt(i) && (i < a.pre || i >= a.pre+keep) {
			where := "before the buffer"
			switch {
			case i >= a.pre+a.capa:
				where = "after the buffer's capacity"
			case i >= a.pre+a.ln:
				where = "in the spare capacity beyond len(buf)"
			case i >= a.pre:
				where = "inside buf beyond the returned length"
			}
			return fmt.Sprintf("byte at buf offset %d (%s) was modified", i-a.pre, where)
		}
	}
	return ""
}

// ---------------------------------------------------------------- runner

// Runner executes one RunSpec.
type Runner struct {
	Spec *RunSpec
	C    *model.Corpus
	Bank *Bank
	J    *journal

	ops map[uint64]*OpSpec

	// per-property state
	c06 *c06state
	c16 []*sharedObj

	c13idx   map[string]int // read-only during the run
	c13first []string

	ts    []*taskStats // per task: tasks must not share maps (the runtime's map code is race-instrumented)
	stats *taskStats   // merged after the run
}

type taskStats struct {
	ops, evals, viol                     int
	faultFired, faultReached             map[string]int
	verdicts                             map[string]int
	events                               map[string]int
	firstUse                             []string
	usedTypes                            map[string]bool
	warm                                 map[string]bool
	ginp                                 *guarded
	maxLive                              int
	checkedExtents, sweeps               int
	decOK, decErr, encOK, encErr, sizeOK int
	sizePanic, legacy, notes             int
	samples                              []reflect.Value // objects handed to Pretouch as samples
	sampleSnaps                          []string
	kept                                 []*keptEnc // C16: values this task encoded earlier, see c16later
}

func newTaskStats() *taskStats {
	return &taskStats{faultFired: map[string]int{}, faultReached: map[string]int{}, verdicts: map[string]int{}, events: map[string]int{},
		usedTypes: map[string]bool{}, warm: map[string]bool{}}
}

func (a *taskStats) merge(b *taskStats) {
	a.ops += b.ops
	a.evals += b.evals
	a.viol += b.viol
	for k, v := range b.faultFired {
		a.faultFired[k] += v
	}
	for k, v := range b.faultReached {
		a.faultReached[k] += v
	}
	for k, v := range b.verdicts {
		a.verdicts[k] += v
	}
	for k, v := range b.events {
		a.events[k] += v
	}
	a.firstUse = append(a.firstUse, b.firstUse...)
	if b.maxLive > a.maxLive {
		a.maxLive = b.maxLive
	}
	a.checkedExtents += b.checkedExtents
	a.sweeps += b.sweeps
	a.decOK += b.decOK
	a.decErr += b.decErr
	a.encOK += b.encOK
	a.encErr += b.encErr
	a.sizeOK += b.sizeOK
	a.sizePanic += b.sizePanic
	a.legacy += b.legacy
	a.notes += b.notes
}

func NewRunner(spec *RunSpec, c *model.Corpus) *Runner {
	r := &Runner{Spec: spec, C: c, Bank: NewBank(spec.Prof, c), J: &journal{os.Stdout.Fd()}, ops: map[uint64]*OpSpec{}}
	r.c06 = &c06state{}
	r.stats = newTaskStats()
	for t := 0; t < spec.Tasks; t++ {
		r.ts = append(r.ts, newTaskStats())
	}
	// everything tasks look up in shared maps is resolved before the run starts
	r.c13idx = map[string]int{}
	for _, st := range spec.Hist {
		if st.Ev == "" || st.Ev == "shared" {
			op := r.op(st.Op)
			if op.Kind == "legacy" && st.Arg > 0 {
				r.op(uint64(st.Arg - 1))
			}
			for _, e := range []string{"size", "enc", "dec", "size/v", "enc/v", "dec/v"} {
				k := op.Type + "/" + e
				if _, ok := r.c13idx[k]; !ok {
					r.c13idx[k] = len(r.c13first)
					r.c13first = append(r.c13first, "")
				}
			}
		}
	}
	return r
}

func (r *Runner) guardedFor(task, n int) *guarded {
	t := r.ts[task%len(r.ts)]
	if t.ginp == nil || t.ginp.usable < n {
		t.ginp = newGuarded(n + 4096)
	}
	return t.ginp
}

// st returns the statistics of the task executing step s.
func (r *Runner) st(s *Step) *taskStats { return r.ts[s.Task%len(r.ts)] }

func (r *Runner) op(id uint64) *OpSpec {
	if o, ok := r.ops[id]; ok {
		return o
	}
	if verifsim.Active() {
		o := r.Bank.Op(id) // not pre-resolved (cannot happen for steps of the history): derive without caching
		return &o
	}
	o := r.Bank.Op(id)
	r.ops[id] = &o
	return &o
}

// maxStepsFactor: C05's enumerating operations make long runs; its verdict on a call that does not end comes from the
// per-operation bound (SetOpLimit), so the bound on the whole run can be generous.
func maxStepsFactor(prof string) int64 {
	if prof == "C05" {
		return 10
	}
	return 1
}

// frugalStacks keeps the goroutines of a stack dump that are inside the code under test.
func frugalStacks(all string) string {
	var out []string
	for _, g := range strings.Split(all, "\n\n") {
		if strings.Contains(g, "cloudwego/frugal/internal/") || strings.Contains(g, "cloudwego/frugal.") {
			if len(g) > 1500 {
				g = g[:1500] + " ..."
			}
			out = append(out, g)
		}
		if len(out) >= 4 {
			break
		}
	}
	return strings.Join(out, "\n\n")
}

func (r *Runner) violation(prop, sig, msg string, st *Step) {
	r.st(st).viol++
	r.J.put(&Rec{K: "V", Prop: prop, Sig: sig, Msg: msg, Slot: st.Slot, Task: st.Task, Op: st.Op})
}

func (r *Runner) note(msg string, st *Step) {
	r.st(st).notes++
	r.J.put(&Rec{K: "N", Msg: msg, Slot: st.Slot, Op: st.Op})
}

// Run executes the history under the simulator.
func (r *Runner) Run() {
	spec := r.Spec
	r.J.put(&Rec{K: "spec", Spec: spec})
	heapAllocs() // initialise the runtime's metrics tables here, on the main goroutine
	if spec.Prof == "C06" {
		debug.SetGCPercent(-1) // collections happen only when the simulator schedules one
	}
	debug.SetMaxStack(64 << 20)
	verifsim.SetPool(spec.Pool, model.Mix(spec.Seed, 0x9001))
	verifsim.OnStall = func(stacks string) {
		r.J.put(&Rec{K: "V", Prop: "C08", Sig: "C08/deadlock/blocked-outside-scheduler", Msg: "no task can go on: the task that holds the run token is blocked in an operation the simulator does not schedule (channel operation, real lock) " +
			"and every other unfinished task is blocked too, or waits for one that is (after " + strconv.Itoa(verifsim.ExtHandoffs) + " hand-overs of the token from blocked tasks to runnable ones)\n" + frugalStacks(stacks)})
		r.J.put(&Rec{K: "end", End: map[string]interface{}{"stalled": true, "viol": 1, "evals": 1, "rounds": 1, "steps": 0, "switches": 0}})
		os.Exit(0)
	}
	if spec.Prof == "C16" {
		r.prepareShared()
	}
	rounds := spec.Rounds
	if rounds < 1 {
		rounds = 1
	}
	if spec.Tasks >= 64 {
		r.ts[0].events["crowd-round"]++
	}
	if spec.Pool == "lifo" {
		r.ts[0].events["long-single-task-run-with-lifo-pool"]++
	}
	var res verifsim.Result
	var total verifsim.Result
	for round := 0; round < rounds; round++ {
		perTask := make([][]Step, spec.Tasks)
		for _, st := range spec.Hist {
			if st.Round != round {
				continue
			}
			if st.Task >= spec.Tasks {
				st.Task = st.Task % spec.Tasks
			}
			perTask[st.Task] = append(perTask[st.Task], st)
		}
		var fns []func()
		for t := 0; t < spec.Tasks; t++ {
			steps := perTask[t]
			fns = append(fns, func() {
				for i := range steps {
					r.step(&steps[i])
				}
			})
		}
		cfg := verifsim.Config{Seed: model.Mix(spec.Seed, uint64(round)), Strategy: spec.Sched.Strategy, Den: spec.Sched.Den, PCTDepth: spec.Sched.PCTDepth,
			PCTSteps: int64(len(spec.Hist)/rounds) * 400, GCEvery: spec.Sched.GCEvery, Pool: spec.Pool, MaxSteps: 60_000_000 * maxStepsFactor(spec.Prof)}
		if lo := round * spec.Tasks; lo+spec.Tasks <= len(spec.Sched.StartAt) {
			cfg.StartAt = spec.Sched.StartAt[lo : lo+spec.Tasks]
		} else if round == 0 {
			cfg.StartAt = spec.Sched.StartAt
		}
		if len(spec.Sched.Switches) > 0 && rounds == 1 {
			cfg.ExplicitSwitches = map[int64]int{}
			for i := 0; i+1 < len(spec.Sched.Switches); i += 2 {
				cfg.ExplicitSwitches[spec.Sched.Switches[i]] = int(spec.Sched.Switches[i+1])
			}
		}
		res = verifsim.Run(cfg, fns)
		total.Steps += res.Steps
		total.Switches += res.Switches
		total.SchedHash = model.Mix(total.SchedHash, res.SchedHash)
		total.GCs += res.GCs
		total.BlockedAcq += res.BlockedAcq
		total.TaskSteps = append(total.TaskSteps, res.TaskSteps...)
		if round == 0 {
			total.SwitchLog = res.SwitchLog
		}
		if res.Deadlock != "" || res.NoProgress != "" {
			break
		}
	}
	total.Deadlock, total.NoProgress, total.OpBound = res.Deadlock, res.NoProgress, res.OpBound
	res = total
	for ti, t := range r.ts {
		r.stats.merge(t)
		// an object that was merely shown to Pretouch must still be what it was
		for i, s := range t.samples {
			if model.Digest(model.CanonValue(s.Elem())) != t.sampleSnaps[i] {
				r.J.put(&Rec{K: "V", Prop: "C17", Sig: "C17/legacy/pretouch-sample-modified", Task: ti,
					Msg: "an object passed to Pretouch as a sample was modified by the time the run ended (" + s.Type().String() + ")"})
				r.stats.viol++
			}
		}
	}
	if len(r.stats.firstUse) > 64 {
		r.stats.firstUse = r.stats.firstUse[:64]
	}
	if res.Deadlock != "" {
		r.J.put(&Rec{K: "V", Prop: "C08", Sig: "C08/deadlock", Msg: res.Deadlock})
		r.stats.viol++
	}
	if res.NoProgress != "" {
		if spec.Prof == "C05" && !res.OpBound {
			// the whole run was long (many enumerating operations on large definitions): nothing to judge
			r.J.put(&Rec{K: "N", Msg: "run ended on its overall step bound (" + res.NoProgress + "); no single call exceeded its own bound"})
		} else if spec.Prof == "C05" {
			// single task, one decode at a time: the operation in flight did not terminate within the step bound
			r.J.put(&Rec{K: "V", Prop: "C05", Sig: "C05/does-not-terminate", Msg: "DecodeObject did not return within the step bound: " + res.NoProgress + " (the input in flight is the last 'b' record)"})
		} else {
			r.J.put(&Rec{K: "V", Prop: "C08", Sig: "C08/no-progress", Msg: res.NoProgress})
		}
		r.stats.viol++
	}
	end := map[string]interface{}{
		"steps": res.Steps, "switches": res.Switches, "sched_hash": fmt.Sprintf("%016x", res.SchedHash), "gcs": res.GCs,
		"ops": r.stats.ops, "evals": r.stats.evals, "viol": r.stats.viol, "probes": verifsim.Probes(), "site_hits": verifsim.SiteHits(),
		"pool": verifsim.GetPoolStats(), "fault_fired": r.stats.faultFired, "fault_reached": r.stats.faultReached, "verdicts": r.stats.verdicts,
		"events": r.stats.events, "first_use": r.stats.firstUse, "max_live": r.stats.maxLive, "extents": r.stats.checkedExtents, "sweeps": r.stats.sweeps,
		"dec_ok": r.stats.decOK, "dec_err": r.stats.decErr, "enc_ok": r.stats.encOK, "enc_err": r.stats.encErr, "size_ok": r.stats.sizeOK,
		"size_panic": r.stats.sizePanic, "legacy": r.stats.legacy, "blocked_acq": res.BlockedAcq, "task_steps": res.TaskSteps,
		"race_build": verifsim.RaceBuild, "ext_handoffs": verifsim.ExtHandoffs, "go": runtime.Version(), "rounds": rounds,
	}
	if len(res.SwitchLog) > 0 && len(res.SwitchLog) <= 400 {
		var sw []int64
		for _, s := range res.SwitchLog {
			sw = append(sw, s.Step, int64(s.To))
		}
		end["switch_log"] = sw
	}
	r.J.put(&Rec{K: "end", End: end})
}

func (r *Runner) step(st *Step) {
	switch st.Ev {
	case "gc":
		r.st(st).events["gc"]++
		runtime.GC()
		if st.Arg%2 == 1 {
			runtime.GC()
		}
		r.c06sweep(st, "gc")
		return
	case "flush":
		r.st(st).events["flush"]++
		ssync.FlushPools()
		return
	case "scribble":
		r.st(st).events["scribble"]++
		r.c06scribble(st)
		r.c06sweep(st, "scribble")
		return
	case "drop":
		r.st(st).events["drop"]++
		r.c06drop(st)
		r.c06sweep(st, "drop")
		return
	case "recheck":
		r.st(st).events["recheck"]++
		r.c06sweep(st, "recheck")
		return
	}
	op := r.op(st.Op)
	ts := r.st(st)
	switch {
	case isFocus(st.Op):
		ts.events["operation-aimed-at-a-focused-definition"]++
	case isPanicOp(st.Op):
		ts.events["call-on-a-definition-whose-initialiser-panics"]++
	case st.Op >= SysRejected && st.Op < PanicBase:
		ts.events["systematic-call-on-a-rejected-definition"]++
	}
	ts.ops++
	if !ts.usedTypes[op.Type] {
		ts.usedTypes[op.Type] = true
		if len(ts.firstUse) < 64 {
			ts.firstUse = append(ts.firstUse, op.Type)
		}
	}
	// decision streams are keyed by the slot, so that dropping other steps leaves this one's decisions unchanged
	if r.Spec.Tasks == 1 {
		verifsim.ReseedPool(model.Mix(r.Spec.Seed, 0x9001, uint64(st.Slot)))
	}
	r.J.put(&Rec{K: "B", Slot: st.Slot, Task: st.Task, Op: st.Op, Step: verifsim.GlobalStep()})
	t0 := verifsim.TaskSteps()
	res := r.exec(op, st)
	res.K, res.Slot, res.Task, res.Op = "E", st.Slot, st.Task, st.Op
	if res.Steps == 0 {
		res.Steps = verifsim.TaskSteps() - t0
	}
	r.J.put(res)
}

// ---------------------------------------------------------------- operations

func classifyPanic(p interface{}) (cls, text string) {
	switch x := p.(type) {
	case runtime.Error:
		return "runtime", x.Error()
	case error:
		return "error", x.Error()
	case string:
		return "string", x
	default:
		return fmt.Sprintf("%T", p), fmt.Sprint(p)
	}
}

// scrub removes addresses from texts so that results compare across processes.
func scrub(s string) string {
	var b strings.Builder
	for i := 0; i < len(s); i++ {
		if s[i] == '0' && i+1 < len(s) && s[i+1] == 'x' {
			j := i + 2
			for j < len(s) && strings.IndexByte("0123456789abcdefABCDEF", s[j]) >= 0 {
				j++
			}
			if j-i > 6 {
				b.WriteString("0xADDR")
				i = j - 1
				continue
			}
		}
		b.WriteByte(s[i])
	}
	return b.String()
}

type value struct {
	w   *model.W
	ptr reflect.Value // *T
	sd  *model.StructDef
}

func (r *Runner) buildValue(op *OpSpec) *value {
	sd := r.C.Get(op.Type)
	rt := corpus.Types[op.Type]
	v := &value{sd: sd, ptr: reflect.New(rt)}
	if sd.Rejected() {
		v.w = model.NewW(model.WStruct)
		return v
	}
	o := model.VOpt{Budget: op.Budget, Foreign: op.Foreign, Deep: op.Deep}
	switch op.Arg {
	case "zero":
		v.w = model.NewW(model.WStruct)
		return v
	case "sparse":
		o.Present = 0.12
	}
	v.w = model.GenValue(r.C, sd, op.VSeed, o)
	model.Realise(r.C, sd, v.w, v.ptr.Elem())
	return v
}

func (v *value) arg(byValue bool) interface{} {
	if byValue {
		return v.ptr.Elem().Interface()
	}
	return v.ptr.Interface()
}

var allocSample = []metrics.Sample{{Name: "/gc/heap/allocs:bytes"}}

func heapAllocs() uint64 {
	metrics.Read(allocSample)
	return allocSample[0].Value.Uint64()
}

func (r *Runner) exec(op *OpSpec, st *Step) (res *Rec) {
	res = &Rec{}
	switch op.Kind {
	case "size":
		return r.execSize(op, st)
	case "enc":
		return r.execEnc(op, st)
	case "encplan":
		return r.execEncPlan(op, st)
	case "dec":
		return r.execDec(op, st)
	case "decenum":
		return r.execDecEnum(op, st)
	case "decseq":
		return r.execDecSeq(op, st)
	case "wrap":
		return r.execWrap(op, st)
	case "reenc":
		return r.execReenc(op, st)
	case "legacy":
		return r.execLegacy(op, st)
	case "arg":
		return r.execArg(op, st)
	}
	verifsim.Fatalf("unknown op kind %q", op.Kind)
	return
}

func callSize(arg interface{}) (n int, pcls, ptext string) {
	defer func() {
		if p := recover(); p != nil {
			pcls, ptext = classifyPanic(p)
		}
	}()
	verifsim.Visible(func() { n = frugal.EncodedSize(arg) })
	return
}

func callEnc(buf []byte, arg interface{}) (n int, err error, pcls, ptext string) {
	defer func() {
		if p := recover(); p != nil {
			pcls, ptext = classifyPanic(p)
		}
	}()
	verifsim.Visible(func() { n, err = frugal.EncodeObject(buf, nil, arg) })
	return
}

func callDec(b []byte, dst interface{}) (n int, err error, pcls, ptext string) {
	defer func() {
		if p := recover(); p != nil {
			pcls, ptext = classifyPanic(p)
		}
	}()
	verifsim.Visible(func() { n, err = frugal.DecodeObject(b, dst) })
	return
}

func (r *Runner) execSize(op *OpSpec, st *Step) *Rec {
	v := r.sharedOrBuild(op, st)
	arg := v.arg(op.ByValue)
	before := r.snapshotArg(op, v)
	n, pc, pt := callSize(arg)
	r.checkArgUnchanged(op, st, v, before, "EncodedSize")
	res := &Rec{N: n, Cls: "ok", Tag: "size/" + v.sd.Shape()}
	if pc != "" {
		res.Cls, res.Err = "panic", pc+": "+scrub(pt)
		r.st(st).sizePanic++
	} else {
		r.st(st).sizeOK++
	}
	res.D = model.Digest([]byte("size n=" + strconv.Itoa(n) + " cls=" + res.Cls + " err=" + res.Err))
	r.c13check(op, st, "size", res, nil, nil)
	return res
}

func (r *Runner) execEnc(op *OpSpec, st *Step) *Rec {
	r.c16later(op, st)
	v := r.sharedOrBuild(op, st)
	arg := v.arg(op.ByValue)
	s, pc, pt := callSize(arg)
	res := &Rec{Tag: "enc/" + op.Buf + "/" + v.sd.Shape()}
	if pc != "" && !v.sd.Rejected() {
		res.Cls, res.Err = "panic", "size:"+pc+": "+scrub(pt)
		res.D = model.Digest([]byte(res.Err))
		return res
	}
	if v.sd.Rejected() {
		s = 64
	}
	ln, capa := s, s
	switch op.Buf {
	case "generous":
		ln, capa = s+17, s+40
	case "short":
		ln = s - op.BufK
		if ln < 0 {
			ln = 0
		}
		capa = ln
	case "shortspare":
		ln = s - op.BufK
		if ln < 0 {
			ln = 0
		}
		capa = s + 16
	case "zero":
		ln, capa = 0, 0
	}
	a := newArena(ln, capa)
	before := r.snapshotArg(op, v)
	n, err, pc, pt := callEnc(a.buf(), arg)
	r.checkArgUnchanged(op, st, v, before, "EncodeObject")
	res.N = n
	var out []byte
	switch {
	case pc != "":
		res.Cls, res.Err = "panic", pc+": "+scrub(pt)
	case err != nil:
		res.Cls, res.Err = "err", scrub(err.Error())
		r.st(st).encErr++
	default:
		res.Cls = "ok"
		r.st(st).encOK++
		if n >= 0 && n <= ln {
			out = a.buf()[:n]
		}
	}
	keep := 0
	if res.Cls == "ok" {
		keep = n
	} else if err != nil {
		keep = ln // after an error the contents of buf[:len] are unspecified
	}
	if r.Spec.Prof == "C16" || r.Spec.Prof == "C13" {
		if msg := a.intact(keep); msg != "" {
			prop := r.Spec.Prof
			r.violation(prop, prop+"/encode-wrote-outside/"+where(msg), "EncodeObject on "+op.Type+": "+msg, st)
		}
		r.st(st).evals++
	}
	canon := ""
	if out != nil {
		if cb, _, ok := model.CanonBytes(out); ok {
			canon = model.Digest(cb)
		} else {
			canon = "unparsable:" + model.Digest(out)
		}
	}
	res.D = model.Digest([]byte("enc n=" + strconv.Itoa(n) + " cls=" + res.Cls + " err=" + res.Err + " out=" + canon))
	r.c13check(op, st, "enc", res, a, nil)
	r.c09encCheck(op, st, v, out, res)
	r.c16repeat(op, st, v, arg, canon, res)
	return res
}

func where(msg string) string {
	switch {
	case strings.Contains(msg, "spare capacity"):
		return "spare-capacity"
	case strings.Contains(msg, "after the buffer"):
		return "past-capacity"
	case strings.Contains(msg, "before the buffer"):
		return "before-buffer"
	}
	return "beyond-n"
}

// message builds the bytes a decode operation receives: a well-formed message for the type
// (written by frugal-like or foreign writers), passed through the fault injector.
type message struct {
	w       *model.W
	clean   []byte
	bytes   []byte
	fault   string
	changed bool
	desc    string
	missing []string // C09: names of required fields made absent
}

func (r *Runner) buildMessage(op *OpSpec) *message {
	sd := r.C.Get(op.Type)
	m := &message{fault: op.Fault}
	if sd.Rejected() {
		m.w = model.NewW(model.WStruct)
		m.clean = []byte{0}
		m.bytes = m.clean
		return m
	}
	m.w = model.GenValue(r.C, sd, op.VSeed, model.VOpt{Budget: op.Budget, Foreign: op.Foreign})
	if op.Omit > 0 {
		m.missing = omitRequired(r.C, sd, m.w, op.Omit, model.NewRng(op.FSeed))
	}
	var tr model.Tracker
	m.clean = m.w.AppendT(nil, &tr)
	m.bytes, m.desc = applyFault(r.C, sd, op, m.clean, &tr)
	m.changed = string(m.bytes) != string(m.clean)
	return m
}

func (r *Runner) execDec(op *OpSpec, st *Step) *Rec {
	sd := r.C.Get(op.Type)
	var m *message
	var in []byte
	if so := r.sharedFor(st); so != nil && so.msg != nil {
		m, in = so.msg, so.input
	} else {
		m = r.buildMessage(op)
	}
	rt := corpus.Types[op.Type]
	dst := reflect.New(rt)
	if op.Prefill && !sd.Rejected() {
		vo := model.VOpt{Budget: 200}
		if r.Spec.Prof == "C09" {
			vo = model.VOpt{Budget: 400, Present: 0.97}
		}
		pw := model.GenValue(r.C, sd, model.Mix(op.VSeed, 0x11), vo)
		if op.FSeed%2 == 1 && m.w != nil && r.Spec.Prof != "C09" {
			// a destination that already holds the very value the (possibly damaged) message was made from: a reused
			// object whose slices and maps have exactly the room the message announces
			pw = m.w
			r.st(st).events["destination-already-holds-the-message's-value"]++
		}
		model.Realise(r.C, sd, pw, dst.Elem())
	}
	if in == nil {
		if r.Spec.Prof == "C06" {
			in = newGuarded(len(m.bytes)).place(m.bytes) // its own region: it must stay put while the object lives
		} else if len(m.bytes) < len(m.clean) && op.FSeed%2 == 0 && string(m.clean[:len(m.bytes)]) == string(m.bytes) {
			// a truncated message that arrives as a window buf[:k] of the buffer holding the whole one
			in = r.guardedFor(st.Task, len(m.clean)).placeWithTail(m.bytes, m.clean[len(m.bytes):])
			r.st(st).events["truncated-input-as-window-with-spare-capacity"]++
		} else {
			in = r.guardedFor(st.Task, len(m.bytes)).place(m.bytes)
		}
	}
	res := r.decodeOnce(op, st, sd, m, in, dst)
	return res
}

// execReenc decodes a message written by a foreign writer and then sizes and encodes the decoded object, by pointer
// and by value, with snapshots of the object (raw bool bytes, unknown-field holder and spare capacities included) around
// every call.
func (r *Runner) execReenc(op *OpSpec, st *Step) *Rec {
	sd := r.C.Get(op.Type)
	rt := corpus.Types[op.Type]
	res := &Rec{Cls: "ok", Tag: "reenc/" + sd.Shape()}
	w := model.GenValue(r.C, sd, op.VSeed, model.VOpt{Budget: op.Budget, Foreign: true, OddBools: true})
	msg := w.Bytes()
	in := make([]byte, len(msg))
	copy(in, msg)
	dst := reflect.New(rt)
	if _, err, pc, _ := callDec(in, dst.Interface()); err != nil || pc != "" {
		res.Cls = "err"
		res.D = "reenc-undecodable"
		return res
	}
	snap := func() string { return model.Digest(model.CanonValue(dst.Elem())) }
	inSnap := model.Digest(in)
	before := snap()
	check := func(fn string) {
		r.st(st).evals++
		res.Evals++
		if after := snap(); after != before {
			r.violation("C16", "C16/argument-modified/"+fn+"/decoded-object", fmt.Sprintf("%s modified the %s object it was given (an object decoded from a foreign writer's message); value=%s", fn, op.Type, w.String()), st)
			before = after
		}
		if model.Digest(in) != inSnap {
			r.violation("C16", "C16/encode-modified-nocopy-source", fmt.Sprintf("%s on a decoded %s object wrote into the message buffer its nocopy fields view", fn, op.Type), st)
			inSnap = model.Digest(in)
		}
	}
	s, pc, _ := callSize(dst.Interface())
	check("EncodedSize")
	if pc != "" {
		res.Cls = "panic"
		res.D = "reenc-size-panic"
		return res
	}
	var first string
	for k := 0; k < 3; k++ {
		a := newArena(s+8, s+24)
		var arg interface{} = dst.Interface()
		if k == 2 {
			arg = dst.Elem().Interface()
		}
		n, err, pc, _ := callEnc(a.buf(), arg)
		check("EncodeObject")
		if err != nil || pc != "" {
			continue
		}
		if cb, _, ok := model.CanonBytes(a.buf()[:n]); ok {
			d := model.Digest(cb)
			if first == "" {
				first = d
			} else if d != first {
				r.violation("C16", "C16/not-repeatable/decoded-object", fmt.Sprintf("encoding the same decoded %s object again gave a different message", op.Type), st)
			}
		}
		if msg := a.intact(n); msg != "" {
			r.violation("C16", "C16/encode-wrote-outside/"+where(msg), "EncodeObject on a decoded "+op.Type+" object: "+msg, st)
		}
		res.N = n
	}
	res.D = model.Digest([]byte("reenc " + strconv.Itoa(res.N) + " " + first))
	return res
}

// execDecSeq decodes several messages - the first one possibly damaged - one after the other into the same
// destination: the destination's prior contents are then what an earlier, possibly failed, decode left behind.
func (r *Runner) execDecSeq(op *OpSpec, st *Step) *Rec {
	sd := r.C.Get(op.Type)
	rt := corpus.Types[op.Type]
	dst := reflect.New(rt)
	res := &Rec{Cls: "ok", Tag: "decseq/" + op.Fault + "/" + sd.Shape()}
	acc := make([]byte, 0, 256)
	var earlier [][]byte
	var earlierSnap []string
	for k := 0; k < op.Omit; k++ {
		sub := *op
		sub.Omit = 0
		sub.VSeed = model.Mix(op.VSeed, uint64(k))
		sub.FSeed = model.Mix(op.FSeed, uint64(k))
		if k%2 == 1 {
			sub.Fault = "none"
		}
		m := r.buildMessage(&sub)
		var in []byte
		if r.Spec.Prof == "C16" {
			in = append(make([]byte, 0, len(m.bytes)), m.bytes...) // every message keeps its own buffer
		} else {
			in = r.guardedFor(st.Task, len(m.bytes)).place(m.bytes)
		}
		one := r.decodeOnce(&sub, st, sd, m, in, dst)
		if r.Spec.Prof == "C16" {
			for i, p := range earlier {
				if model.Digest(p) != earlierSnap[i] {
					r.violation("C16", "C16/decode-modified-input/earlier-buffer", fmt.Sprintf("DecodeObject(%s) of message %d into the same object modified the input buffer of message %d (%s)", op.Type, k, i, m.desc), st)
					earlierSnap[i] = model.Digest(p)
				}
			}
			earlier, earlierSnap = append(earlier, in), append(earlierSnap, model.Digest(in))
		}
		acc = append(acc, one.D...)
		acc = append(acc, ';')
		res.N += one.N
		if one.Cls == "panic" {
			res.Cls, res.Err = "panic", one.Err
		}
	}
	res.D = model.Digest(acc)
	return res
}

// decodeOnce runs one decode and the per-decode oracles.
func (r *Runner) decodeOnce(op *OpSpec, st *Step, sd *model.StructDef, m *message, in []byte, dst reflect.Value) *Rec {
	res := &Rec{Tag: "dec/" + m.fault + "/" + sd.Shape()}
	var inSnap string
	if r.Spec.Prof == "C16" {
		inSnap = model.Digest(in)
	}
	var dstBefore string
	if sd.Rejected() {
		dstBefore = model.Digest(model.CanonValue(dst.Elem()))
	}
	if r.Spec.Prof == "C05" {
		if ts := r.st(st); !ts.warm[sd.Name] {
			// first use registers the type (and everything nested): that cost is per type, not per message
			ts.warm[sd.Name] = true
			callDec([]byte{0}, reflect.New(dst.Type().Elem()).Interface())
		}
		r.J.put(&Rec{K: "b", Slot: st.Slot, Op: st.Op, Msg: m.desc, N: len(in)}) // so that a dying child names the input in flight
	}
	// (runtime/metrics only where its numbers are judged: C05, single task. Its lazily initialised tables would
	// otherwise be touched by several tasks in harness mode and show up as a race inside the runtime.)
	measure := r.Spec.Prof == "C05"
	var a0 uint64
	if measure {
		a0 = heapAllocs()
	}
	s0 := verifsim.TaskSteps()
	if r.Spec.Prof == "C05" {
		// a decode that loops is stopped here, inside the call (far above the proportionality bound that is judged)
		verifsim.SetOpLimit(int64(2_000_000 + 8192*len(in)))
	}
	n, err, pc, pt := callDec(in, dst.Interface())
	verifsim.SetOpLimit(0)
	steps := verifsim.TaskSteps() - s0
	var alloc uint64
	if measure {
		alloc = heapAllocs() - a0
	}
	res.N, res.Steps, res.Alloc = n, steps, alloc
	switch {
	case pc != "":
		res.Cls, res.Err = "panic", pc+": "+scrub(pt)
	case err != nil:
		res.Cls, res.Err = "err", scrub(err.Error())
		r.st(st).decErr++
	default:
		res.Cls = "ok"
		r.st(st).decOK++
	}
	if m.fault != "" && m.fault != "none" {
		r.st(st).faultFired[m.fault]++
		if m.changed {
			r.st(st).faultReached[m.fault]++
		}
	}
	canon := model.Digest(model.CanonValue(dst.Elem()))
	res.D = model.Digest([]byte("dec n=" + strconv.Itoa(n) + " cls=" + res.Cls + " err=" + res.Err + " dst=" + canon))
	if res.Cls == "ok" && op.VSeed%2 == 0 && !sd.Rejected() && (r.Spec.Prof == "C07" || r.Spec.Prof == "C08" || r.Spec.Prof == "C17") {
		// the caller owns what was decoded: it writes into it (after the result was recorded). Nothing of that may
		// show in any later result.
		model.Scribble(r.C, sd, dst.Elem(), 0)
		r.st(st).events["owner-writes-into-decoded-object"]++
	}
	switch r.Spec.Prof {
	case "C05":
		r.c05check(op, st, sd, m, in, res, pc, pt)
	case "C06":
		r.c06after(op, st, sd, m, in, dst, res)
	case "C09":
		r.c09decCheck(op, st, sd, m, err, res)
	case "C16":
		r.st(st).evals++
		if model.Digest(in) != inSnap {
			r.violation("C16", "C16/decode-modified-input", fmt.Sprintf("DecodeObject(%s) modified its input buffer (%s)", op.Type, m.desc), st)
		}
	}
	if sd.Rejected() {
		r.c13check(op, st, "dec", res, nil, &dstCheck{before: dstBefore, after: canon})
	}
	return res
}

type dstCheck struct{ before, after string }

// ---------------------------------------------------------------- legacy controls (C17)

// The legacy controls run in visible mode like the codec calls: whatever synchronisation they perform (none on the
// pinned tree, where they are empty) is honoured by the race detector, and whatever memory they touch is checked.
func pretouch(v interface{}, opts ...frugal.Option) (err error) {
	// while a warm-up call runs, the initialisers of the LateInit definitions panic ("configuration not loaded yet"):
	// on the pinned tree the call does nothing, so nobody notices
	flag := &corpus.InitNotReady[verifsim.TaskID()%512]
	atomic.StoreInt32(flag, 1)
	defer atomic.StoreInt32(flag, 0)
	verifsim.Visible(func() { err = frugal.Pretouch(v, opts...) })
	return
}

func setDepth(d int) (got int) {
	verifsim.Visible(func() { got = frugal.SetMaxInlineDepth(d) })
	return
}

func setIL(d int) (got int) {
	verifsim.Visible(func() { got = frugal.SetMaxInlineILSize(d) })
	return
}

func (r *Runner) execLegacy(op *OpSpec, st *Step) *Rec {
	res := &Rec{Cls: "ok", Tag: "legacy/" + op.Legacy}
	r.st(st).legacy++
	r.st(st).evals++
	fail := func(msg string) {
		r.violation("C17", "C17/legacy/"+op.Legacy, msg, st)
	}
	func() {
		defer func() {
			if p := recover(); p != nil {
				_, t := classifyPanic(p)
				fail(fmt.Sprintf("legacy control %s panicked: %s", op.Legacy, t))
			}
		}()
		rt := corpus.Types[op.Type]
		if st.Arg > 0 {
			if t, ok := corpus.Types[r.op(uint64(st.Arg-1)).Type]; ok {
				rt = t // targeted: the type of another operation of this history
			}
		}
		switch op.Legacy {
		case "pretouch":
			// the old signature (a reflect.Type, of the struct or of the pointer) and the new one (any value): a live
			// sample object, a typed nil pointer, a struct value
			sample := reflect.New(rt)
			if sd := r.C.Get(op.Type); st.Arg > 0 {
				sd = r.C.Get(r.op(uint64(st.Arg - 1)).Type)
				if sd != nil && !sd.Rejected() {
					model.Realise(r.C, sd, model.GenValue(r.C, sd, op.VSeed, model.VOpt{Budget: 200}), sample.Elem())
				}
			}
			ts := r.st(st)
			ts.samples = append(ts.samples, sample)
			ts.sampleSnaps = append(ts.sampleSnaps, model.Digest(model.CanonValue(sample.Elem())))
			for _, x := range []interface{}{rt, reflect.PtrTo(rt), sample.Interface(), reflect.Zero(reflect.PtrTo(rt)).Interface(), sample.Elem().Interface()} {
				if err := pretouch(x); err != nil {
					fail("Pretouch returned " + err.Error())
				}
			}
		case "pretouch-opts":
			for k, x := range []interface{}{rt, reflect.PtrTo(rt), reflect.New(rt).Interface()} {
				if err := pretouch(x, frugal.WithMaxInlineDepth(int(op.VSeed%7)), frugal.WithMaxInlineILSize(int(op.VSeed%100000)),
					frugal.WithMaxPretouchDepth(int(op.VSeed>>3)%5-1+k%2)); err != nil {
					fail("Pretouch returned " + err.Error())
				}
			}
		case "pretouch-ptrptr":
			pp := reflect.PtrTo(reflect.PtrTo(rt))
			if err := pretouch(pp); err != nil {
				fail("Pretouch(**T type) returned " + err.Error())
			}
			if err := pretouch(reflect.New(pp).Elem().Interface()); err != nil {
				fail("Pretouch(**T value) returned " + err.Error())
			}
			p := reflect.New(rt)
			ppv := reflect.New(p.Type())
			ppv.Elem().Set(p)
			if err := pretouch(ppv.Interface()); err != nil {
				fail("Pretouch(**T value) returned " + err.Error())
			}
		case "pretouch-nil":
			if err := pretouch(nil); err != nil {
				fail("Pretouch(nil) returned " + err.Error())
			}
		case "pretouch-nonstruct":
			for _, x := range []interface{}{reflect.TypeOf(0), reflect.TypeOf(""), reflect.TypeOf([]int{}), 42, "x", reflect.TypeOf((*error)(nil))} {
				if err := pretouch(x); err != nil {
					fail("Pretouch(non-struct) returned " + err.Error())
				}
			}
		case "nojit":
			verifsim.Visible(func() { frugal.NoJIT(op.VSeed%2 == 0) })
		case "setdepth":
			for _, d := range []int{0, 1, -1, int(op.VSeed % 1000), 1 << 30} {
				if got := setDepth(d); got != d {
					fail(fmt.Sprintf("SetMaxInlineDepth(%d) returned %d", d, got))
				}
			}
		case "setil":
			for _, d := range []int{0, 1, -1, int(op.VSeed % 100000), 1 << 30} {
				if got := setIL(d); got != d {
					fail(fmt.Sprintf("SetMaxInlineILSize(%d) returned %d", d, got))
				}
			}
		case "getstats":
			verifsim.Visible(func() { _ = fdebug.GetStats() })
		case "options":
			_ = frugal.WithMaxInlineDepth(3)
			_ = frugal.WithMaxInlineILSize(1000)
			_ = frugal.WithMaxPretouchDepth(2)
		}
	}()
	res.D = "legacy"
	return res
}

// ---------------------------------------------------------------- non-struct arguments (C13)

type notAStruct int

func (r *Runner) execArg(op *OpSpec, st *Step) *Rec {
	var arg interface{}
	i32 := int32(7)
	pi := &i32
	rt := corpus.Types[op.Type]
	switch op.Arg {
	case "nil":
		arg = nil
	case "int":
		arg = 42
	case "string":
		arg = "frugal"
	case "slice":
		arg = []int32{1, 2}
	case "map":
		arg = map[string]int32{"a": 1}
	case "ptrptr":
		p := reflect.New(rt)
		pp := reflect.New(p.Type())
		pp.Elem().Set(p)
		arg = pp.Interface()
	case "ptr-int":
		arg = pi
	case "nil-typed-ptr":
		arg = reflect.Zero(reflect.PtrTo(rt)).Interface()
	case "func":
		arg = func() {}
	case "struct-of-nonstruct-ptr":
		x := notAStruct(3)
		arg = &x
	case "struct-value":
		arg = reflect.New(rt).Elem().Interface()
	}
	res := &Rec{Tag: "arg/" + op.Arg + "/" + op.Legacy}
	a := newArena(64, 96)
	var n int
	var err error
	var pc, pt string
	entry := op.Legacy
	switch entry {
	case "size":
		n, pc, pt = callSize(arg)
	case "enc":
		n, err, pc, pt = callEnc(a.buf(), arg)
	default:
		n, err, pc, pt = callDec([]byte{0}, arg)
	}
	res.N = n
	switch {
	case pc != "":
		res.Cls, res.Err = "panic", pc+": "+scrub(pt)
	case err != nil:
		res.Cls, res.Err = "err", scrub(err.Error())
	default:
		res.Cls = "ok"
	}
	res.D = model.Digest([]byte("arg n=" + strconv.Itoa(n) + " cls=" + res.Cls + " err=" + res.Err))
	if r.Spec.Prof != "C13" {
		return res
	}
	r.st(st).evals++
	sig := "C13/argument/" + op.Arg + "/" + entry
	// a nil *T is a legal argument for the encoder (it denotes an empty struct); it must be rejected by the decoder only
	if op.Arg == "nil-typed-ptr" && entry != "dec" {
		return res
	}
	switch entry {
	case "size":
		if res.Cls != "panic" {
			r.violation("C13", sig, fmt.Sprintf("EncodedSize(%s argument) returned %d instead of panicking", op.Arg, n), st)
		} else if pc == "runtime" {
			r.violation("C13", sig+"/memory-fault", fmt.Sprintf("EncodedSize(%s argument) failed with a runtime error: %s", op.Arg, pt), st)
		}
	default:
		if res.Cls == "panic" {
			r.violation("C13", sig+"/panic", fmt.Sprintf("%s(%s argument) panicked: %s", entry, op.Arg, pt), st)
		} else if res.Cls == "ok" {
			r.violation("C13", sig+"/accepted", fmt.Sprintf("%s(%s argument) returned n=%d err=%v", entry, op.Arg, n, err), st)
		}
		if entry == "enc" {
			if msg := a.intact(0); msg != "" {
				r.violation("C13", sig+"/wrote", "EncodeObject("+op.Arg+" argument): "+msg, st)
			}
		}
	}
	return res
}

// ---------------------------------------------------------------- C13 on rejected definitions

func (r *Runner) c13check(op *OpSpec, st *Step, entry string, res *Rec, a *outArena, d *dstCheck) {
	sd := r.C.Get(op.Type)
	if r.Spec.Prof != "C13" || sd == nil || !sd.Rejected() {
		return
	}
	r.st(st).evals++
	class := sd.Invalid
	if class == "" {
		class = "contains-invalid"
	}
	res.Tag = "rejected/" + class + "/" + entry
	sig := "C13/" + class + "/" + entry
	switch entry {
	case "size":
		if res.Cls != "panic" {
			r.violation("C13", sig+"/accepted", fmt.Sprintf("EncodedSize on rejected definition %s (%s) returned %d instead of panicking", op.Type, class, res.N), st)
		} else if strings.HasPrefix(res.Err, "runtime:") {
			r.violation("C13", sig+"/memory-fault", fmt.Sprintf("EncodedSize on %s (%s) failed with a runtime error: %s", op.Type, class, res.Err), st)
		}
	case "enc", "dec":
		switch {
		case res.Cls == "panic":
			r.violation("C13", sig+"/panic", fmt.Sprintf("%s on rejected definition %s (%s) panicked: %s", entry, op.Type, class, res.Err), st)
		case res.Cls == "ok":
			r.violation("C13", sig+"/accepted", fmt.Sprintf("%s on rejected definition %s (%s) succeeded (n=%d)", entry, op.Type, class, res.N), st)
		}
		if a != nil {
			if msg := a.intact(0); msg != "" {
				r.violation("C13", sig+"/wrote", fmt.Sprintf("EncodeObject on rejected definition %s produced bytes: %s", op.Type, msg), st)
			}
		}
		if d != nil && d.before != d.after {
			r.violation("C13", sig+"/stored", fmt.Sprintf("DecodeObject on rejected definition %s modified the destination", op.Type), st)
		}
	}
	// the same on every call
	// "the same on every call": the same call, i.e. the same entry point with the same kind of argument (a message
	// may legitimately mention whether it was given T or *T)
	form := ""
	if op.ByValue {
		form = "/v"
	}
	idx, ok := r.c13idx[op.Type+"/"+entry+form]
	if !ok {
		return
	}
	verdict := res.Cls + ":" + res.Err
	if first := r.c13first[idx]; first == "" {
		r.c13first[idx] = verdict
	} else if first != verdict {
		r.violation("C13", sig+"/inconsistent", fmt.Sprintf("%s on %s: first call %q, later call %q", entry, op.Type, first, verdict), st)
	}
}

// ---------------------------------------------------------------- helpers shared by oracles

// invalidDataErr: the error unwraps to a protocol exception of type INVALID_DATA (the wording is not ours to police).
func invalidDataErr(err error) (bool, string) {
	var pe *thrift.ProtocolException
	if errors.As(err, &pe) && pe.TypeId() == thrift.INVALID_DATA {
		return true, pe.Error()
	}
	return false, ""
}

// namesField reports whether text mentions the Go field name as a whole word (F6 must not match F64).
func namesField(text, name string) bool {
	for i := 0; i+len(name) <= len(text); i++ {
		if text[i:i+len(name)] != name {
			continue
		}
		before := i == 0 || !isWordByte(text[i-1])
		after := i+len(name) == len(text) || !isWordByte(text[i+len(name)])
		if before && after {
			return true
		}
	}
	return false
}

func isWordByte(c byte) bool {
	return c == '_' || c >= '0' && c <= '9' || c >= 'a' && c <= 'z' || c >= 'A' && c <= 'Z'
}

func ptrOf(b []byte) uintptr {
	if len(b) == 0 {
		return 0
	}
	return uintptr(unsafe.Pointer(&b[0]))
}
