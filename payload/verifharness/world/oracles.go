package world

import (
	"fmt"
	"reflect"
	"runtime"
	"sort"
	"strconv"
	"strings"

	"github.com/cloudwego/frugal/internal/verifsim"
	"github.com/cloudwego/frugal/verifharness/corpus"
	"github.com/cloudwego/frugal/verifharness/model"
)

// ================================================================ C04

// execEncPlan is C04's deciding operation: EncodedSize by pointer and by value, then EncodeObject under
// every output fault the simulator can inject: exact, generous, empty and nil buffers, every shortfall
// (all of them up to 256 bytes, a seeded sample beyond), each again with spare capacity behind len(buf).
func (r *Runner) execEncPlan(op *OpSpec, st *Step) *Rec {
	v := r.buildValue(op)
	shape := v.sd.Shape()
	nilPtr := op.VSeed%23 == 0 // a typed nil pointer is an accepted argument: it denotes the empty struct
	if nilPtr {
		v.w = model.NewW(model.WStruct)
		v.ptr = reflect.Zero(v.ptr.Type())
		shape = "nil-pointer/" + shape
	}
	res := &Rec{Cls: "ok", Tag: "encplan/" + shape}
	fail := func(sig, msg string) {
		r.violation("C04", "C04/"+sig, fmt.Sprintf("%s value=%s: %s", op.Type, v.w.String(), msg), st)
	}
	sp, pc, pt := callSize(v.arg(false))
	if pc != "" {
		fail("size-panic/ptr", "EncodedSize(pointer) panicked: "+pt)
		res.Cls, res.Err = "panic", pt
		return res
	}
	sv := sp
	if !nilPtr {
		sv, pc, pt = callSize(v.arg(true))
	}
	if pc != "" {
		fail("size-panic/value", "EncodedSize(struct value) panicked: "+pt)
		res.Cls, res.Err = "panic", pt
		return res
	}
	if sp != sv {
		fail("size-differs-by-form", fmt.Sprintf("EncodedSize is %d by pointer and %d by value", sp, sv))
	}
	s := sp
	res.N = s
	rng := model.NewRng(model.Mix(op.VSeed, 0xb0f))
	type plan struct {
		ln, capa int
		name     string
	}
	plans := []plan{{s, s, "exact"}, {s + 1, s + 1, "generous"}, {s + 64, s + 200, "generous+spare"}, {s, s + 33, "exact+spare"}}
	if s > 0 {
		plans = append(plans, plan{0, 0, "empty"}, plan{0, s + 8, "empty+spare"}, plan{-1, -1, "nil"})
		var ks []int
		if s <= 256 {
			for k := 1; k <= s; k++ {
				ks = append(ks, k)
			}
		} else {
			ks = []int{1, 2, 3, 4, 5, 7, 8, s - 1, s / 2, s / 3}
			for i := 0; i < 14; i++ {
				ks = append(ks, 1+rng.Intn(s))
			}
		}
		for _, k := range ks {
			if k < 1 || k > s {
				continue
			}
			plans = append(plans, plan{s - k, s - k, "short"}, plan{s - k, s + 16, "short+spare"})
		}
	}
	var firstOut string
	for pi, p := range plans {
		for form := 0; form < 2; form++ {
			if form == 1 && (nilPtr || (pi > 8 && pi%5 != 0)) {
				continue // by-value: the whole plan for the main cases, a sample of the shortfalls
			}
			arg := v.arg(form == 1)
			var a *outArena
			var buf []byte
			if p.ln >= 0 {
				a = newArena(p.ln, p.capa)
				buf = a.buf()
			}
			n, err, pc, pt := callEnc(buf, arg)
			r.st(st).evals++
			res.Evals++
			ln := p.ln
			if ln < 0 {
				ln = 0
			}
			what := func() string {
				return fmt.Sprintf("buffer %s (len %d cap %d, size %d, by-value=%v)", p.name, ln, p.capa, s, form == 1)
			}
			if pc != "" {
				fail("encode-panic", what()+": EncodeObject panicked: "+pt)
				continue
			}
			if ln >= s {
				if err != nil {
					fail("sufficient-buffer-error", what()+": error "+err.Error())
				} else if n != s {
					fail("size-mismatch", fmt.Sprintf("%s: EncodeObject wrote %d bytes, EncodedSize said %d", what(), n, s))
				} else if a != nil && n > 0 && a.buf()[n-1] != 0 {
					// every message ends with the STOP byte of its outermost struct: if that byte is not there, the n
					// bytes EncodeObject reports are not in the caller's buffer (what they say is not judged here)
					fail("buffer-not-written", what()+": returned n="+strconv.Itoa(n)+" but buf[n-1] is not the final STOP byte: the message is not in the caller's buffer")
				} else if a != nil && firstOut == "" {
					// (whether the bytes are the right message is C02's business, whether a second call yields the
					// same ones C16's; here they only feed the digest that other oracles compare)
					if cb, _, ok := model.CanonBytes(a.buf()[:n]); ok {
						firstOut = model.Digest(cb)
					}
				}
			} else {
				if err == nil {
					fail("short-buffer-no-error", fmt.Sprintf("%s: returned n=%d and no error", what(), n))
				}
			}
			if a != nil {
				keep := ln
				if err == nil && n <= ln {
					keep = n
				}
				if msg := a.intact(keep); msg != "" {
					fail("wrote-outside/"+where(msg), what()+": "+msg)
				}
			}
		}
	}
	res.D = model.Digest([]byte("encplan s=" + strconv.Itoa(s) + " out=" + firstOut))
	return res
}

// ================================================================ C05

func maxFootprint(c *model.Corpus, sd *model.StructDef) int {
	best := 64
	for _, s := range Related(c, sd) {
		if rt, ok := corpus.Types[s.Name]; ok {
			if n := int(rt.Size()); n > best {
				best = n
			}
		}
	}
	return best
}

// c05check: (a) no panic, (b) success exactly when the validator says well-formed, with the same length,
// (c) allocation in proportion to the input, (d) steps in proportion to the input.
func (r *Runner) c05check(op *OpSpec, st *Step, sd *model.StructDef, m *message, in []byte, res *Rec, pc, pt string) {
	r.st(st).evals++
	res.Evals++
	shape := m.fault
	if pc != "" {
		cls := "panic"
		if pc == "runtime" {
			cls = "runtime-panic"
		}
		r.violation("C05", "C05/"+cls+"/"+shape+"/"+panicKind(pt), fmt.Sprintf("DecodeObject(%s) panicked on %d bytes (%s): %s", op.Type, len(in), m.desc, pt), st)
		return
	}
	verdict, vn := model.Validate(r.C, sd, in)
	r.st(st).verdicts[verdict.String()]++
	switch verdict {
	case model.Valid:
		if res.Cls != "ok" {
			r.violation("C05", "C05/rejected-well-formed/"+shape, fmt.Sprintf("DecodeObject(%s) rejected a well-formed message (%s): %s", op.Type, m.desc, res.Err), st)
		}
		_ = vn // how many bytes a successful decode reports is C03's business, not C05's
	case model.Invalid:
		if res.Cls == "ok" {
			r.violation("C05", "C05/accepted-malformed/"+shape, fmt.Sprintf("DecodeObject(%s) accepted a malformed message, n=%d of %d bytes (%s)", op.Type, res.N, len(in), m.desc), st)
		}
	}
	// "memory out of proportion to the input": a generous linear bound (pooled scratch objects are a few KiB per
	// nesting level); the cheap per-call metric is lumpy, so an excess is confirmed with exact accounting.
	bound := uint64(1<<20) + uint64(len(in))*uint64(maxFootprint(r.C, sd)+8192+64)
	if res.Alloc > bound {
		var m0, m1 runtime.MemStats
		runtime.ReadMemStats(&m0)
		callDec(in, reflect.New(corpus.Types[op.Type]).Interface())
		runtime.ReadMemStats(&m1)
		if exact := m1.TotalAlloc - m0.TotalAlloc; exact > bound {
			r.violation("C05", "C05/allocation-blow-up/"+shape, fmt.Sprintf("DecodeObject(%s) allocated %d bytes for a %d-byte input (bound %d; %s)", op.Type, exact, len(in), bound, m.desc), st)
		}
	}
	if sb := int64(4096 + 256*len(in)); res.Steps > sb {
		r.violation("C05", "C05/step-blow-up/"+shape, fmt.Sprintf("DecodeObject(%s) took %d steps for a %d-byte input (bound %d; %s)", op.Type, res.Steps, len(in), sb, m.desc), st)
	}
}

func panicKind(t string) string {
	switch {
	case strings.Contains(t, "index out of range"), strings.Contains(t, "slice bounds out of range"):
		return "out-of-range"
	case strings.Contains(t, "nil pointer"):
		return "nil-deref"
	case strings.Contains(t, "makeslice"), strings.Contains(t, "out of memory"), strings.Contains(t, "makemap"):
		return "allocation"
	}
	return "other"
}

// execDecEnum: every prefix and every single-byte position x {0x00, 0xff, ^b, b+1, b-1} of one message.
func (r *Runner) execDecEnum(op *OpSpec, st *Step) *Rec {
	sd := r.C.Get(op.Type)
	rt := corpus.Types[op.Type]
	var tr model.Tracker
	wv := model.GenValue(r.C, sd, op.VSeed, model.VOpt{Budget: op.Budget, Foreign: op.Foreign})
	base := wv.AppendT(nil, &tr)
	res := &Rec{Cls: "ok", Tag: "decenum/" + sd.Shape(), N: len(base)}
	if len(base) > 600 {
		// too long to enumerate: seeded sample of positions
		res.Tag = "decenum-sampled/" + sd.Shape()
	}
	g := r.guardedFor(st.Task, len(base)+8)
	rng := model.NewRng(model.Mix(op.FSeed, 0xe))
	run := func(b []byte, fault, desc string) {
		m := &message{fault: fault, bytes: b, clean: base, desc: desc, changed: true}
		in := g.place(b)
		one := r.decodeOnce(op, st, sd, m, in, reflect.New(rt))
		res.Evals += one.Evals
	}
	run(base, "none", "undamaged")
	for k := 0; k < len(base); k++ {
		if len(base) > 600 && rng.Intn(len(base)) > 600 {
			continue
		}
		run(base[:k], "prefix", "prefix "+strconv.Itoa(k)+" of "+strconv.Itoa(len(base)))
		// and the same prefix as a window of the buffer that holds the whole message (capacity beyond the length)
		m := &message{fault: "prefix", bytes: base[:k], clean: base, desc: "prefix " + strconv.Itoa(k) + " of " + strconv.Itoa(len(base)) + " with the rest as spare capacity", changed: true}
		r.st(st).events["truncated-input-as-window-with-spare-capacity"]++
		one := r.decodeOnce(op, st, sd, m, g.placeWithTail(base[:k], base[k:]), reflect.New(rt))
		res.Evals += one.Evals
		if k%2 == 1 && !op.Foreign {
			// and into a destination that already holds the whole value (a reused object: its slices and maps have
			// exactly the room the message announces)
			dst := reflect.New(rt)
			model.Realise(r.C, sd, wv, dst.Elem())
			r.st(st).events["destination-already-holds-the-message's-value"]++
			m2 := &message{fault: "prefix", bytes: base[:k], clean: base, desc: "prefix " + strconv.Itoa(k) + " of " + strconv.Itoa(len(base)) + " into a destination that holds the whole value", changed: true}
			one = r.decodeOnce(op, st, sd, m2, g.place(base[:k]), dst)
			res.Evals += one.Evals
		}
	}
	mut := make([]byte, len(base))
	for k := 0; k < len(base); k++ {
		if len(base) > 600 && rng.Intn(len(base)) > 300 {
			continue
		}
		o := base[k]
		for _, v := range []byte{0x00, 0xff, ^o, o + 1, o - 1} {
			if v == o {
				continue
			}
			copy(mut, base)
			mut[k] = v
			run(mut, "byte", "byte "+strconv.Itoa(k)+" of "+strconv.Itoa(len(base))+": "+strconv.Itoa(int(o))+" -> "+strconv.Itoa(int(v)))
		}
	}
	// every type-code position (field, element, key, value type) x every byte value
	if len(base) <= 600 {
		for _, p := range tr.P {
			switch p.Kind {
			case "ftype", "etype", "ktype", "vtype":
			default:
				continue
			}
			o := base[p.Off]
			for v := 0; v < 256; v++ {
				if byte(v) == o {
					continue
				}
				copy(mut, base)
				mut[p.Off] = byte(v)
				run(mut, "typecode", p.Kind+" at "+strconv.Itoa(p.Off)+": "+strconv.Itoa(int(o))+" -> "+strconv.Itoa(v))
			}
		}
	}
	res.D = "decenum"
	return res
}

// ================================================================ C06

type liveObj struct {
	id      int
	typ     string
	obj     reflect.Value // *T
	snap    string
	extents []model.Extent
	input   []byte // the buffer the message arrived in
	scrib   bool
	hasNC   bool
	desc    string
}

type c06state struct {
	live    []*liveObj
	next    int
	inputs  [][2]uintptr // every buffer ever handed to the decoder
	decoded int
}

func (r *Runner) c06after(op *OpSpec, st *Step, sd *model.StructDef, m *message, in []byte, dst reflect.Value, res *Rec) {
	r.st(st).evals++
	s := r.c06
	if len(in) > 0 {
		s.inputs = append(s.inputs, [2]uintptr{ptrOf(in), uintptr(len(in))})
	}
	if res.Cls == "panic" {
		return
	}
	s.decoded++
	o := &liveObj{id: s.next, typ: op.Type, obj: dst, input: in, desc: "#" + strconv.Itoa(s.next) + " " + op.Type + " decoded at slot " + strconv.Itoa(st.Slot) + " from " + strconv.Itoa(len(in)) + " bytes"}
	s.next++
	o.snap = model.Digest(model.CanonValue(dst.Elem()))
	if res.Cls == "ok" {
		model.Extents(r.C, sd, m.w, dst.Elem(), op.Type, !op.Prefill, &o.extents)
	} else {
		// a decode that failed midway: what it stored before failing must stay as it is (snapshot only; the wire
		// tree no longer describes the object, so its extents are not walked)
		o.desc += " (decode failed: " + res.Err + ")"
		o.hasNC = hasNoCopy(r.C, sd)
	}
	for _, e := range o.extents {
		if e.NoCopy {
			o.hasNC = true
		}
	}
	if !o.hasNC && hasNoCopy(r.C, sd) && model.HoldsNoCopy(r.C, sd, dst.Elem(), 0) {
		// a nocopy view in a part of the object the extent walk does not reach (prefilled destination, entries of a
		// struct-keyed map)
		o.hasNC = true
	}
	s.live = append(s.live, o)
	if len(s.live) > 64 {
		s.live = s.live[1:]
	}
	if len(s.live) > r.st(st).maxLive {
		r.st(st).maxLive = len(s.live)
	}
	// alignment is a property of the fresh object alone
	for _, e := range o.extents {
		if e.Align > 1 && e.Addr%e.Align != 0 && !e.NoCopy {
			r.violation("C06", "C06/misaligned", fmt.Sprintf("%s: %s at %#x is not aligned to %d", o.desc, e.What, e.Addr, e.Align), st)
		}
	}
	r.c06sweep(st, "decode")
	if res.Cls == "ok" && op.VSeed%3 == 0 {
		// the owner of the new object writes into it (maps, slices, byte slices, scalars): every other live object
		// must stay what it was
		model.Scribble(r.C, sd, dst.Elem(), 0)
		r.st(st).events["owner-writes-into-decoded-object"]++
		o.snap = model.Digest(model.CanonValue(dst.Elem()))
		r.c06sweep(st, "owner-write")
	}
}

// c06sweep checks every invariant over all live objects after an event.
func (r *Runner) c06sweep(st *Step, after string) {
	if r.Spec.Prof != "C06" {
		return
	}
	s := r.c06
	r.st(st).sweeps++
	type ext struct {
		model.Extent
		o *liveObj
	}
	var all []ext
	for _, o := range s.live {
		if !(o.scrib && o.hasNC) { // a nocopy field legitimately changes with its buffer
			if d := model.Digest(model.CanonValue(o.obj.Elem())); d != o.snap {
				r.violation("C06", "C06/value-changed/after-"+after, fmt.Sprintf("%s changed after %s at slot %d", o.desc, after, st.Slot), st)
				o.snap = d
			}
		}
		for _, e := range o.extents {
			if e.Size > 0 {
				all = append(all, ext{e, o})
			}
		}
	}
	r.st(st).checkedExtents += len(all)
	sort.Slice(all, func(i, j int) bool { return all[i].Addr < all[j].Addr })
	for i := 1; i < len(all); i++ {
		p, q := all[i-1], all[i]
		if p.Addr+p.Size > q.Addr {
			r.violation("C06", "C06/overlap", fmt.Sprintf("%s (%s, %d bytes at %#x) overlaps %s (%s, %d bytes at %#x)",
				p.What, p.o.desc, p.Size, p.Addr, q.What, q.o.desc, q.Size, q.Addr), st)
			break
		}
	}
	// no extent inside any buffer ever handed to the decoder (nocopy fields exempt)
	ins := append([][2]uintptr(nil), s.inputs...)
	sort.Slice(ins, func(i, j int) bool { return ins[i][0] < ins[j][0] })
	for _, e := range all {
		if e.NoCopy {
			continue
		}
		k := sort.Search(len(ins), func(i int) bool { return ins[i][0]+ins[i][1] > e.Addr })
		if k < len(ins) && ins[k][0] < e.Addr+e.Size {
			r.violation("C06", "C06/aliases-input", fmt.Sprintf("%s of %s (%d bytes at %#x) lies inside an input buffer", e.What, e.o.desc, e.Size, e.Addr), st)
			break
		}
	}
}

func hasNoCopy(c *model.Corpus, sd *model.StructDef) bool {
	for _, s := range Related(c, sd) {
		for _, f := range s.Fields {
			if f.NoCopy {
				return true
			}
		}
	}
	return false
}

func (r *Runner) c06scribble(st *Step) {
	s := r.c06
	if len(s.live) == 0 {
		return
	}
	o := s.live[st.Arg%len(s.live)]
	for i := range o.input {
		o.input[i] = byte(0xC3 ^ i)
	}
	o.scrib = true
}

func (r *Runner) c06drop(st *Step) {
	s := r.c06
	if len(s.live) == 0 {
		return
	}
	k := st.Arg % len(s.live)
	s.live = append(s.live[:k], s.live[k+1:]...)
	runtime.GC()
}

// ================================================================ C09

func (r *Runner) c09decCheck(op *OpSpec, st *Step, sd *model.StructDef, m *message, err error, res *Rec) {
	r.st(st).evals++
	res.Evals++
	isReq, text := false, ""
	if err != nil {
		isReq, text = invalidDataErr(err)
	}
	res.Tag = "dec/omit=" + strconv.Itoa(len(m.missing)) + "/" + sd.Shape()
	if len(m.missing) > 0 {
		if res.Cls == "ok" {
			r.violation("C09", "C09/missing-required-accepted", fmt.Sprintf("DecodeObject(%s) accepted a message lacking required %v: %s", op.Type, m.missing, m.w.String()), st)
			return
		}
		if res.Cls == "panic" {
			return // a crash is C05's business
		}
		if m.w.Depth() > 40 {
			return // nested beyond what the decoder must accept: it may refuse the message for its depth first
		}
		if !isReq {
			r.violation("C09", "C09/missing-required-wrong-error", fmt.Sprintf("DecodeObject(%s) lacking required %v failed with %q, not an invalid-data protocol error naming the field", op.Type, m.missing, res.Err), st)
			return
		}
		named := false
		for _, n := range m.missing {
			if namesField(text, n) {
				named = true
			}
		}
		if !named {
			r.violation("C09", "C09/missing-required-wrong-name", fmt.Sprintf("DecodeObject(%s) lacking required %v reported %q", op.Type, m.missing, text), st)
		}
		return
	}
	// nothing required is missing: the message must not be rejected "on that account" - recognisable only by an
	// invalid-data error that talks about a required field
	if isReq && strings.Contains(strings.ToLower(text), "required") {
		r.violation("C09", "C09/spurious-required-error", fmt.Sprintf("DecodeObject(%s) reported %q although every required field is present: %s", op.Type, text, m.w.String()), st)
	}
}

// execWrap decodes one complete message and then, op.Omit times in a row, a message of the same type that lacks every
// field of one 64-id word in which the type declares a required field. Each of the repeated decodes must be rejected:
// the verdict on a message does not depend on how many messages went before it. (Per-use counters, stamps and
// generations kept in pooled objects go through a full period this way; the single complete message in front is what
// a stale period would resurrect.)
func (r *Runner) execWrap(op *OpSpec, st *Step) *Rec {
	sd := r.C.Get(op.Type)
	rt := corpus.Types[op.Type]
	res := &Rec{Cls: "ok", Tag: "wrap/" + strconv.Itoa(op.Omit) + "/" + sd.Shape()}
	r.st(st).evals++
	res.Evals++
	var reqs []*model.Field
	for _, f := range sd.Fields {
		if f.Req == model.Required {
			reqs = append(reqs, f)
		}
	}
	res.D = "wrap"
	if len(reqs) == 0 {
		return res
	}
	f := reqs[int(op.VSeed%uint64(len(reqs)))]
	word := f.ID / 64
	w := model.GenValue(r.C, sd, op.VSeed, model.VOpt{Budget: 80, MaxDepth: 2, Present: 0.3})
	bad := model.NewW(model.WStruct)
	for _, wf := range w.F {
		if wf.ID/64 != word {
			bad.F = append(bad.F, wf)
		}
	}
	var missing []string
	for _, q := range reqs {
		if q.ID/64 == word {
			missing = append(missing, q.Name)
		}
	}
	good, lacking := w.Bytes(), bad.Bytes()
	dst := reflect.New(rt)
	if _, err, pc, _ := callDec(r.guardedFor(st.Task, len(good)).place(good), dst.Interface()); err != nil || pc != "" {
		return res // the complete message is not accepted: nothing to resurrect, and not this operation's business
	}
	in := r.guardedFor(st.Task, len(lacking)).place(lacking)
	zero := reflect.Zero(rt)
	r.st(st).events["wrap-operation"]++
	r.st(st).events["wrap-repetitions"] += op.Omit
	for i := 0; i < op.Omit; i++ {
		dst.Elem().Set(zero)
		_, err, pc, _ := callDec(in, dst.Interface())
		if pc != "" {
			res.Cls = "panic"
			return res // a crash is C05's business
		}
		if err == nil {
			r.violation("C09", "C09/missing-required-accepted", fmt.Sprintf("DecodeObject(%s) accepted a message lacking required %v at its %d-th repetition after one complete message: %s", op.Type, missing, i+1, bad.String()), st)
			res.Cls = "ok"
			res.D = "wrap: accepted at repetition " + strconv.Itoa(i+1) // (for the baseline comparison of C07)
			return res
		}
	}
	res.Cls = "err"
	res.D = "wrap: every repetition refused"
	return res
}

// c09encCheck: every struct instance that exists in the value has every required field in the output.
func (r *Runner) c09encCheck(op *OpSpec, st *Step, v *value, out []byte, res *Rec) {
	if r.Spec.Prof != "C09" || out == nil || v.sd.Rejected() {
		return
	}
	r.st(st).evals++
	res.Evals++
	res.Tag = "enc/" + op.Arg + "/" + v.sd.Shape()
	ow, _, err := model.Parse(out, model.WStruct, 4096)
	if err != nil {
		r.violation("C09", "C09/encode-unparsable", "EncodeObject("+op.Type+") output does not parse", st)
		return
	}
	if miss := requiredMissing(r.C, v.sd, v.w, ow, op.Type); miss != "" {
		r.violation("C09", "C09/required-not-written", fmt.Sprintf("EncodeObject(%s) omitted required field %s; value=%s", op.Type, miss, v.w.String()), st)
		return
	}
	// every struct instance the output itself contains - also the ones that cannot be matched to the value by
	// position or key bytes (struct-keyed map entries, containers whose length changed) - has its required fields
	if miss := requiredInOutput(r.C, v.sd, ow, op.Type, 0); miss != "" {
		r.violation("C09", "C09/required-not-written", fmt.Sprintf("EncodeObject(%s) omitted required field %s; value=%s", op.Type, miss, v.w.String()), st)
	}
}

// requiredInOutput walks the output alone, guided by the schema.
func requiredInOutput(c *model.Corpus, sd *model.StructDef, out *model.W, path string, depth int) string {
	if depth > 200 {
		return ""
	}
	if depth > 0 && len(out.F) == 0 {
		// a nil non-optional struct is written as an empty struct: that is not a struct instance of the value, and
		// without the value's tree at this position it cannot be told from one
		return ""
	}
	for _, f := range sd.Fields {
		var ov *model.W
		for _, wf := range out.F {
			if wf.ID == f.ID && wf.V.T == f.T.Wire() {
				ov = wf.V
			}
		}
		if ov == nil {
			if f.Req == model.Required {
				return path + "." + f.Name
			}
			continue
		}
		if m := reqOutT(c, f.T, ov, path+"."+f.Name, depth+1); m != "" {
			return m
		}
	}
	return ""
}

func reqOutT(c *model.Corpus, t *model.T, out *model.W, path string, depth int) string {
	if !involves(t) {
		return ""
	}
	switch t.K {
	case model.Struct:
		return requiredInOutput(c, c.Get(t.S), out, path, depth)
	case model.List, model.Set:
		if out.VT != t.Elem.Wire() {
			return ""
		}
		for i := range out.L {
			if m := reqOutT(c, t.Elem, out.L[i], path+"["+strconv.Itoa(i)+"]", depth+1); m != "" {
				return m
			}
		}
	case model.Map:
		if out.KT != t.Key.Wire() || out.VT != t.Elem.Wire() {
			return ""
		}
		for i := 0; i+1 < len(out.L); i += 2 {
			if m := reqOutT(c, t.Key, out.L[i], path+"[key#"+strconv.Itoa(i/2)+"]", depth+1); m != "" {
				return m
			}
			if m := reqOutT(c, t.Elem, out.L[i+1], path+"[#"+strconv.Itoa(i/2)+"]", depth+1); m != "" {
				return m
			}
		}
	}
	return ""
}

// requiredMissing walks the input tree (which says which struct instances exist) and the output tree together.
func requiredMissing(c *model.Corpus, sd *model.StructDef, in, out *model.W, path string) string {
	get := func(w *model.W, f *model.Field) *model.W {
		var r *model.W
		for _, wf := range w.F {
			if wf.ID == f.ID && wf.V.T == f.T.Wire() {
				r = wf.V
			}
		}
		return r
	}
	for _, f := range sd.Fields {
		ov := get(out, f)
		if f.Req == model.Required && ov == nil {
			return path + "." + f.Name
		}
		iv := get(in, f)
		if iv == nil || ov == nil {
			continue
		}
		if m := reqMissT(c, f.T, iv, ov, path+"."+f.Name); m != "" {
			return m
		}
	}
	return ""
}

func reqMissT(c *model.Corpus, t *model.T, in, out *model.W, path string) string {
	switch t.K {
	case model.Struct:
		return requiredMissing(c, c.Get(t.S), in, out, path)
	case model.List, model.Set:
		if !involves(t.Elem) || len(in.L) != len(out.L) {
			return ""
		}
		for i := range in.L {
			if m := reqMissT(c, t.Elem, in.L[i], out.L[i], fmt.Sprintf("%s[%d]", path, i)); m != "" {
				return m
			}
		}
	case model.Map:
		if !involves(t.Elem) || t.Key.K == model.Struct {
			return ""
		}
		idx := map[string]*model.W{}
		for i := 0; i+1 < len(out.L); i += 2 {
			idx[string(out.L[i].Append(nil))] = out.L[i+1]
		}
		for i := 0; i+1 < len(in.L); i += 2 {
			if ov := idx[string(in.L[i].Append(nil))]; ov != nil {
				if m := reqMissT(c, t.Elem, in.L[i+1], ov, path+"[k]"); m != "" {
					return m
				}
			}
		}
	}
	return ""
}

func involves(t *model.T) bool { return structIn(t) != "" }

// ================================================================ C16

type sharedObj struct {
	op    *OpSpec
	val   *value
	msg   *message
	input []byte
	snap  string
	canon string
}

func (r *Runner) prepareShared() {
	seen := map[int]bool{}
	for _, st := range r.Spec.Hist {
		if st.Ev != "shared" || seen[st.Arg] {
			continue
		}
		seen[st.Arg] = true
		for len(r.c16) <= st.Arg {
			r.c16 = append(r.c16, nil)
		}
		op := r.op(st.Op)
		so := &sharedObj{op: op}
		if op.Kind == "dec" {
			so.msg = r.buildMessage(op)
			// on the Go heap, not in a guarded mapping: the race detector only shadows Go-managed memory, and what
			// this world wants to see is a write by the decoder to a buffer another task is reading
			so.input = make([]byte, len(so.msg.bytes))
			copy(so.input, so.msg.bytes)
		} else {
			so.val = r.buildValue(op)
			so.snap = model.Digest(model.CanonValue(so.val.ptr.Elem()))
		}
		r.c16[st.Arg] = so
	}
}

func (r *Runner) sharedFor(st *Step) *sharedObj {
	if st.Ev == "shared" && st.Arg < len(r.c16) {
		return r.c16[st.Arg]
	}
	return nil
}

func (r *Runner) sharedOrBuild(op *OpSpec, st *Step) *value {
	if so := r.sharedFor(st); so != nil && so.val != nil {
		return so.val
	}
	return r.buildValue(op)
}

func (r *Runner) snapshotArg(op *OpSpec, v *value) string {
	if r.Spec.Prof != "C16" {
		return ""
	}
	return model.Digest(model.CanonValue(v.ptr.Elem()))
}

func (r *Runner) checkArgUnchanged(op *OpSpec, st *Step, v *value, before, fn string) {
	if r.Spec.Prof != "C16" {
		return
	}
	r.st(st).evals++
	if after := model.Digest(model.CanonValue(v.ptr.Elem())); after != before {
		form := "pointer"
		if op.ByValue {
			form = "value"
		}
		r.violation("C16", "C16/argument-modified/"+fn+"/"+form, fmt.Sprintf("%s(%s by %s) modified its argument; value=%s", fn, op.Type, form, v.w.String()), st)
	}
}

// c16repeat: encoding the same unmodified value again yields the same canonical message.
func (r *Runner) c16repeat(op *OpSpec, st *Step, v *value, arg interface{}, canon string, res *Rec) {
	if r.Spec.Prof != "C16" || canon == "" {
		return
	}
	r.st(st).evals++
	res.Evals++
	a := newArena(res.N+8, res.N+8)
	// the same unmodified value again, through the other argument form (pointer <-> struct value)
	n, err, pc, _ := callEnc(a.buf(), v.arg(!op.ByValue))
	if pc != "" || err != nil || n != res.N {
		r.violation("C16", "C16/not-repeatable", fmt.Sprintf("re-encoding %s gave n=%d err=%v (first call n=%d)", op.Type, n, err, res.N), st)
		return
	}
	if cb, _, ok := model.CanonBytes(a.buf()[:n]); !ok || model.Digest(cb) != canon {
		r.violation("C16", "C16/not-repeatable", fmt.Sprintf("re-encoding the unmodified %s value gave a different message", op.Type), st)
	}
	if op.VSeed%3 == 0 && r.sharedFor(st) == nil {
		// and once more after collections and a burst of small allocations: whatever the encoder compares the value
		// with or reads besides the value (declared defaults, cached per-type data) must still be there
		r.st(st).events["re-encode-after-collections"]++
		runtime.GC()
		runtime.GC()
		keep := make([][]byte, 0, 3000)
		for i := 0; i < 3000; i++ {
			b := make([]byte, 8+(i*7)%120)
			for j := range b {
				b[j] = 0x5a
			}
			keep = append(keep, b)
		}
		a3 := newArena(res.N+8, res.N+8)
		n3, err3, pc3, _ := callEnc(a3.buf(), v.arg(op.ByValue))
		runtime.KeepAlive(keep)
		r.st(st).evals++
		if pc3 != "" || err3 != nil || n3 != res.N {
			r.violation("C16", "C16/not-repeatable/after-collection", fmt.Sprintf("re-encoding the unmodified %s value after garbage collections gave n=%d err=%v (first call n=%d)", op.Type, n3, err3, res.N), st)
			return
		}
		if cb, _, ok := model.CanonBytes(a3.buf()[:n3]); !ok || model.Digest(cb) != canon {
			r.violation("C16", "C16/not-repeatable/after-collection", fmt.Sprintf("re-encoding the unmodified %s value after garbage collections gave a different message", op.Type), st)
			return
		}
	}
	if op.ByValue && r.sharedFor(st) == nil {
		r.c16churn(op, st, v)
	}
	if ts := r.st(st); r.sharedFor(st) == nil && len(ts.kept) < 6 && res.N <= 8192 {
		ts.kept = append(ts.kept, &keptEnc{v: v, typ: op.Type, n: res.N, canon: canon, snap: model.Digest(model.CanonValue(v.ptr.Elem()))})
	}
	if so := r.sharedFor(st); so != nil {
		if so.canon == "" {
			so.canon = canon
		} else if so.canon != canon {
			r.violation("C16", "C16/not-repeatable/shared", fmt.Sprintf("two tasks encoding the same shared %s value got different messages", op.Type), st)
		}
	}
}

// c16churn: by-value arguments are boxed by the caller; the box of an earlier value may be collected and a later,
// different value boxed at the same address. Encode a few different values of the type by value, with collections in
// between, and require each to encode as it does by pointer.
func (r *Runner) c16churn(op *OpSpec, st *Step, v *value) {
	for k := 1; k <= 3; k++ {
		runtime.GC()
		o2 := *op
		o2.VSeed = model.Mix(op.VSeed, 0xc4, uint64(k))
		v2 := r.buildValue(&o2)
		s, pc, _ := callSize(v2.arg(false))
		if pc != "" {
			return
		}
		a1, a2 := newArena(s+8, s+8), newArena(s+8, s+8)
		n1, e1, p1, _ := callEnc(a1.buf(), v2.arg(true))
		n2, e2, p2, _ := callEnc(a2.buf(), v2.arg(false))
		r.st(st).evals++
		if p1 != "" || p2 != "" || e1 != nil || e2 != nil {
			continue
		}
		c1, _, ok1 := model.CanonBytes(a1.buf()[:n1])
		c2, _, ok2 := model.CanonBytes(a2.buf()[:n2])
		if n1 != n2 || !ok1 || !ok2 || string(c1) != string(c2) {
			r.violation("C16", "C16/not-repeatable/by-value-vs-pointer", fmt.Sprintf("the same %s value encodes to %d bytes by value and to a different message of %d bytes by pointer; value=%s", op.Type, n1, n2, v2.w.String()), st)
			return
		}
	}
}

var _ = verifsim.Active

// keptEnc is a value a task encoded successfully and keeps, unmodified, for the rest of the run.
type keptEnc struct {
	v           *value
	typ         string
	n           int
	canon, snap string
}

// c16later: "encoding the same unmodified value again yields the same bytes" - also after the task's other calls
// (other values of the same definition, extreme ones, failed ones) have come and gone in between. Before each encode
// of the task, one of the values it encoded earlier is encoded again.
func (r *Runner) c16later(op *OpSpec, st *Step) {
	ts := r.st(st)
	if r.Spec.Prof != "C16" || len(ts.kept) == 0 {
		return
	}
	k := ts.kept[int(op.VSeed>>9)%len(ts.kept)]
	if model.Digest(model.CanonValue(k.v.ptr.Elem())) != k.snap {
		return // modified since (reported where it happened): no longer "the same unmodified value"
	}
	ts.events["re-encode-after-other-calls"]++
	ts.evals++
	a := newArena(k.n+8, k.n+8)
	n, err, pc, _ := callEnc(a.buf(), k.v.arg(false))
	if pc != "" || err != nil || n != k.n {
		r.violation("C16", "C16/not-repeatable/later", fmt.Sprintf("re-encoding the unmodified %s value after other calls of the task gave n=%d err=%v panic=%q (first call n=%d)", k.typ, n, err, pc, k.n), st)
		return
	}
	if cb, _, ok := model.CanonBytes(a.buf()[:n]); !ok || model.Digest(cb) != k.canon {
		r.violation("C16", "C16/not-repeatable/later", fmt.Sprintf("re-encoding the unmodified %s value after other calls of the task gave a different message", k.typ), st)
	}
}
