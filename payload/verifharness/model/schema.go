// Package model is the simulator's own description of the "programs" under
// test: Thrift struct schemas, the Go source that declares them, wire-level
// value trees, a reference encoder, a schema-less walker and a reference
// validator. It shares no code with frugal: a schema is known by construction
// from the generator, never by parsing struct tags.
package model

import (
	"fmt"
	"sort"
	"strings"
)

// Kind of a schema type.
type Kind uint8

const (
	Bool Kind = iota
	I8
	I16
	I32
	I64
	Double
	String
	Binary
	Enum
	Struct
	List
	Set
	Map
)

// Thrift wire type codes.
const (
	WStop   = 0
	WBool   = 2
	WI8     = 3
	WDouble = 4
	WI16    = 6
	WI32    = 8
	WI64    = 10
	WString = 11
	WStruct = 12
	WMap    = 13
	WSet    = 14
	WList   = 15
)

// T is a schema type expression.
type T struct {
	K    Kind
	Key  *T     // map key
	Elem *T     // list/set element, map value
	S    string // struct or enum name
	Ptr  bool   // struct held by pointer (false: by value)
	// GoName: for I64 only - the Go type is this named int64 type (the same Go type that is an enum when annotated
	// with its own name), annotated "i64": same Go type, different Thrift type.
	GoName string
}

// Wire returns the wire type code of t.
func (t *T) Wire() byte {
	switch t.K {
	case Bool:
		return WBool
	case I8:
		return WI8
	case I16:
		return WI16
	case I32, Enum:
		return WI32
	case I64:
		return WI64
	case Double:
		return WDouble
	case String, Binary:
		return WString
	case Struct:
		return WStruct
	case List:
		return WList
	case Set:
		return WSet
	case Map:
		return WMap
	}
	panic("bad kind")
}

// Scalar reports whether t is a fixed-width scalar.
func (t *T) Scalar() bool { return t.K <= Double || t.K == Enum }

// Anno is the type annotation as written in a struct tag.
func (t *T) Anno() string {
	switch t.K {
	case Bool:
		return "bool"
	case I8:
		return "i8"
	case I16:
		return "i16"
	case I32:
		return "i32"
	case I64:
		return "i64"
	case Double:
		return "double"
	case String:
		return "string"
	case Binary:
		return "binary"
	case Enum, Struct:
		return t.S
	case List:
		return "list<" + t.Elem.Anno() + ">"
	case Set:
		return "set<" + t.Elem.Anno() + ">"
	case Map:
		return "map<" + t.Key.Anno() + ":" + t.Elem.Anno() + ">"
	}
	panic("bad kind")
}

// GoType is the Go type expression.
func (t *T) GoType() string {
	switch t.K {
	case Bool:
		return "bool"
	case I8:
		return "int8"
	case I16:
		return "int16"
	case I32:
		return "int32"
	case I64:
		if t.GoName != "" {
			return t.GoName
		}
		return "int64"
	case Double:
		return "float64"
	case String:
		return "string"
	case Binary:
		return "[]byte"
	case Enum:
		return t.S
	case Struct:
		if t.Ptr {
			return "*" + t.S
		}
		return t.S
	case List, Set:
		return "[]" + t.Elem.GoType()
	case Map:
		return "map[" + t.Key.GoType() + "]" + t.Elem.GoType()
	}
	panic("bad kind")
}

// Shape is a name-free description used to classify cases for evidence.
func (t *T) Shape() string {
	switch t.K {
	case Struct:
		if t.Ptr {
			return "*struct"
		}
		return "struct"
	case Enum:
		return "enum"
	case List:
		return "list<" + t.Elem.Shape() + ">"
	case Set:
		return "set<" + t.Elem.Shape() + ">"
	case Map:
		return "map<" + t.Key.Shape() + ":" + t.Elem.Shape() + ">"
	}
	return t.Anno()
}

// Req is a field's requiredness.
type Req uint8

const (
	Default Req = iota
	Required
	Optional
)

func (r Req) String() string { return [...]string{"default", "required", "optional"}[r] }

// Field of a struct schema.
type Field struct {
	ID       uint16
	Name     string // Go field name
	Req      Req
	T        *T
	OptPtr   bool // optional scalar/string held as a Go pointer
	NoCopy   bool
	TagStyle int  // 0 frugal only, 1 thrift+frugal, 2 thrift only (with annotation)
	OmitAnno bool // annotation omitted (legal for everything without a slice or enum inside)
	Alias    int  // equivalent spelling variants (0 none, 1 "byte" for i8, 2 spaces, 3 pkg-qualified struct)
	Def      *W   // declared default (non-pointer scalar/string/binary), set by InitDefault
}

// StructDef is one struct schema.
type StructDef struct {
	Name        string
	Fields      []*Field
	InitDefault bool
	// PanicInit: the type's InitDefault panics (user code failing while frugal runs it under its registration lock).
	// Such definitions are neither Valid nor Rejected; only the concurrency and history profiles call on them.
	PanicInit bool
	// HoldsPanic: a definition that nests a PanicInit one (its own initialiser, if any, is fine): its registration gets
	// under way before the user code of the nested definition fails.
	HoldsPanic bool
	// LateInit: the type's InitDefault panics while the corpus variable InitNotReady is set (configuration that is
	// loaded after the start-up warm-up). The harness sets it only around legacy warm-up calls.
	LateInit bool
	Unknown  bool // has the _unknownFields holder
	Decoys   int  // bit0 unexported field, bit1 untagged exported field, bit2 embedded struct
	// Invalid: non-empty for an invalid-by-construction definition (C13): the defect class.
	Invalid string
	// RawFields replaces the field list in the emitted source for invalid definitions.
	RawFields []string
	// ContainsInvalid: a valid-looking definition that transitively contains an invalid one.
	ContainsInvalid bool
	Cluster         int // index of the recursive cluster it belongs to (or -1)
	shape           string
}

// FieldByID finds a field.
func (s *StructDef) FieldByID(id uint16) *Field {
	for _, f := range s.Fields {
		if f.ID == id {
			return f
		}
	}
	return nil
}

// Rejected reports whether every entry point must reject this definition.
func (s *StructDef) Rejected() bool { return s.Invalid != "" || s.ContainsInvalid }

// Corpus is one generated set of programs.
type Corpus struct {
	Seed    uint64
	Structs []*StructDef
	Enums   []string
	byName  map[string]*StructDef
}

func (c *Corpus) Get(name string) *StructDef { return c.byName[name] }

func (c *Corpus) index() {
	c.byName = map[string]*StructDef{}
	for _, s := range c.Structs {
		c.byName[s.Name] = s
		s.shape = s.computeShape()
	}
}

// Valid lists the accepted definitions, Rejected the others.
func (c *Corpus) Valid() []*StructDef {
	var r []*StructDef
	for _, s := range c.Structs {
		if !s.Rejected() && !s.PanicInit && !s.HoldsPanic {
			r = append(r, s)
		}
	}
	return r
}

// Panicky lists the definitions whose initialiser panics.
func (c *Corpus) Panicky() []*StructDef {
	var r []*StructDef
	for _, s := range c.Structs {
		if s.PanicInit || s.HoldsPanic {
			r = append(r, s)
		}
	}
	return r
}

func (c *Corpus) RejectedDefs() []*StructDef {
	var r []*StructDef
	for _, s := range c.Structs {
		if s.Rejected() {
			r = append(r, s)
		}
	}
	return r
}

// Shape of a struct: sorted multiset of field shapes (name-free).
func (s *StructDef) Shape() string {
	if s.shape != "" {
		return s.shape
	}
	return s.computeShape()
}

func (s *StructDef) computeShape() string {
	var p []string
	for _, f := range s.Fields {
		x := f.Req.String()[:3] + ":" + f.T.Shape()
		if f.OptPtr {
			x += "*"
		}
		if f.NoCopy {
			x += "!"
		}
		p = append(p, x)
	}
	sort.Strings(p)
	return fmt.Sprintf("{%s}", strings.Join(p, ","))
}
