package model

import (
	"bytes"
	"encoding/binary"
	"hash/fnv"
	"math"
	"reflect"
	"sort"
	"strconv"
	"unsafe"
)

// Realise builds the Go value that the wire tree w denotes under schema s into rv
// (an addressable struct value of s's Go type), using plain reflect only.
// Unknown / retyped fields go to the unknown-fields holder if the struct has one.
func Realise(c *Corpus, s *StructDef, w *W, rv reflect.Value) {
	var unk []byte
	for _, wf := range w.F {
		f := s.FieldByID(wf.ID)
		if f == nil || f.T.Wire() != wf.V.T {
			if s.Unknown {
				unk = append(unk, wf.V.T, byte(wf.ID>>8), byte(wf.ID))
				unk = wf.V.Append(unk)
			}
			continue
		}
		fv := rv.FieldByName(f.Name)
		if f.OptPtr {
			p := reflect.New(fv.Type().Elem())
			setValue(c, f.T, wf.V, p.Elem())
			fv.Set(p)
		} else {
			setValue(c, f.T, wf.V, fv)
		}
	}
	if s.Unknown && len(unk) > 0 {
		SetUnknown(rv, unk)
	}
}

// SetUnknown stores raw bytes into the unexported unknown-fields holder.
func SetUnknown(rv reflect.Value, b []byte) {
	fv := rv.FieldByName("_unknownFields")
	if !fv.IsValid() {
		return
	}
	reflect.NewAt(fv.Type(), unsafe.Pointer(fv.UnsafeAddr())).Elem().SetBytes(withSpare(b))
}

// SpareFill is what the spare capacity of realised byte slices holds (e.g. a holder that is a window into a
// received packet): nothing may write there, and CanonValue covers it.
const SpareFill = 0xEE

// withSpare copies b into a slice that, for some lengths, has spare capacity filled with SpareFill.
func withSpare(b []byte) []byte {
	pad := 0
	switch len(b) % 4 {
	case 1:
		pad = 1
	case 2:
		pad = 5
	case 3:
		pad = 16
	}
	out := make([]byte, len(b)+pad)
	copy(out, b)
	for i := len(b); i < len(out); i++ {
		out[i] = SpareFill
	}
	return out[:len(b)]
}

func setValue(c *Corpus, t *T, w *W, dst reflect.Value) {
	switch t.K {
	case Bool:
		dst.SetBool(w.I != 0)
	case I8, I16, I32, I64, Enum:
		dst.SetInt(w.I)
	case Double:
		// through unsafe so that NaN payloads survive bit-exactly
		*(*uint64)(unsafe.Pointer(dst.UnsafeAddr())) = uint64(w.I)
	case String:
		dst.SetString(string(w.B))
	case Binary:
		dst.SetBytes(withSpare(w.B))
	case Struct:
		sd := c.Get(t.S)
		if t.Ptr {
			p := reflect.New(dst.Type().Elem())
			Realise(c, sd, w, p.Elem())
			dst.Set(p)
		} else {
			Realise(c, sd, w, dst)
		}
	case List, Set:
		sl := reflect.MakeSlice(dst.Type(), len(w.L), len(w.L))
		for i, e := range w.L {
			setValue(c, t.Elem, e, sl.Index(i))
		}
		dst.Set(sl)
	case Map:
		// Half of the maps are built the way user code usually builds them: by inserting into an empty map without a
		// size hint, which can leave the runtime's map in the middle of an incremental growth.
		// and a quarter each with a size hint far above the final size, or grown by entries that are deleted again (a
		// Go map never shrinks): few entries spread over many buckets.
		var m reflect.Value
		n := len(w.L) / 2
		mode := n % 4
		if mode == 3 && n > 24 {
			mode = 1 // larger odd sizes are built by plain insertion (the sizes at which a map is in the middle of a growth)
		}
		switch mode {
		case 1:
			m = reflect.MakeMap(dst.Type())
		case 2:
			m = reflect.MakeMapWithSize(dst.Type(), 4*n+40)
		case 3:
			m = reflect.MakeMap(dst.Type())
		default:
			m = reflect.MakeMapWithSize(dst.Type(), n)
		}
		var extra []reflect.Value
		if mode == 3 {
			for j := 0; j < 40; j++ {
				k := reflect.New(dst.Type().Key()).Elem()
				switch t.Key.K {
				case I16, I32, I64, Enum:
					k.SetInt(int64(-30000 - j))
				case Double:
					k.SetFloat(1e300 + float64(j)*1e290)
				case String:
					k.SetString("\x00\x00throwaway" + strconv.Itoa(j))
				case Struct:
					if !t.Key.Ptr {
						continue
					}
					k.Set(reflect.New(dst.Type().Key().Elem()))
				default:
					continue
				}
				m.SetMapIndex(k, reflect.Zero(dst.Type().Elem()))
				extra = append(extra, k)
			}
		}
		for i := 0; i+1 < len(w.L); i += 2 {
			k := reflect.New(dst.Type().Key()).Elem()
			setValue(c, t.Key, w.L[i], k)
			v := reflect.New(dst.Type().Elem()).Elem()
			setValue(c, t.Elem, w.L[i+1], v)
			m.SetMapIndex(k, v)
		}
		for _, k := range extra {
			// (a throwaway key that happens to equal a real one is not deleted: lengths must stay what the tree says)
			if m.Len() > n {
				m.SetMapIndex(k, reflect.Value{})
			}
		}
		dst.Set(m)
	}
}

// ---------------------------------------------------------------- canonical form of Go values

// CanonValue renders any Go value deterministically: map entries sorted by their rendered key,
// floats by bit pattern, nil distinguished from empty, unexported fields included, no addresses.
func CanonValue(v reflect.Value) []byte {
	var b bytes.Buffer
	canon(&b, v, 0)
	return b.Bytes()
}

// Digest is a short hash of a canonical rendering.
func Digest(b []byte) string {
	h := fnv.New64a()
	h.Write(b)
	return Hex64(h.Sum64())
}

// Hex64 formats 16 hex digits without package fmt (whose pooled printers are shared between tasks).
func Hex64(v uint64) string {
	const d = "0123456789abcdef"
	var b [16]byte
	for i := 15; i >= 0; i-- {
		b[i] = d[v&15]
		v >>= 4
	}
	return string(b[:])
}

func wInt(b *bytes.Buffer, v int64) {
	var tmp [24]byte
	b.Write(strconv.AppendInt(tmp[:0], v, 10))
}

func canon(b *bytes.Buffer, v reflect.Value, depth int) {
	if depth > 5000 {
		b.WriteString("<deep>")
		return
	}
	switch v.Kind() {
	case reflect.Bool:
		// read the raw byte: a decoder may have stored something other than 0/1
		if v.CanAddr() {
			b.WriteByte('b')
			wInt(b, int64(*(*byte)(unsafe.Pointer(v.UnsafeAddr()))))
		} else if v.Bool() {
			b.WriteString("b1")
		} else {
			b.WriteString("b0")
		}
	case reflect.Int, reflect.Int8, reflect.Int16, reflect.Int32, reflect.Int64:
		wInt(b, v.Int())
	case reflect.Uint, reflect.Uint8, reflect.Uint16, reflect.Uint32, reflect.Uint64, reflect.Uintptr:
		b.WriteByte('u')
		b.WriteString(strconv.FormatUint(v.Uint(), 10))
	case reflect.Float32, reflect.Float64:
		b.WriteByte('f')
		b.WriteString(Hex64(math.Float64bits(v.Float())))
	case reflect.String:
		s := v.String()
		writeBytes(b, 's', unsafe.Slice(unsafe.StringData(s), len(s)))
	case reflect.Slice:
		if v.IsNil() {
			b.WriteString("nil")
			return
		}
		if v.Type().Elem().Kind() == reflect.Uint8 {
			writeBytes(b, 'x', v.Bytes())
			if c := v.Cap(); c > v.Len() && c-v.Len() <= 64 {
				// the spare capacity is reachable from the value too (by re-slicing)
				spare := unsafe.Slice((*byte)(unsafe.Pointer(v.Pointer())), c)[v.Len():c]
				writeBytes(b, '+', spare)
			}
			return
		}
		b.WriteByte('[')
		for i := 0; i < v.Len(); i++ {
			if i > 0 {
				b.WriteByte(',')
			}
			canon(b, v.Index(i), depth+1)
		}
		b.WriteByte(']')
	case reflect.Array:
		b.WriteByte('[')
		for i := 0; i < v.Len(); i++ {
			if i > 0 {
				b.WriteByte(',')
			}
			canon(b, v.Index(i), depth+1)
		}
		b.WriteByte(']')
	case reflect.Map:
		if v.IsNil() {
			b.WriteString("nil")
			return
		}
		type kv struct{ k, v []byte }
		var es []kv
		it := v.MapRange()
		for it.Next() {
			var kb, vb bytes.Buffer
			canon(&kb, it.Key(), depth+1)
			canon(&vb, it.Value(), depth+1)
			es = append(es, kv{kb.Bytes(), vb.Bytes()})
		}
		sort.Slice(es, func(i, j int) bool {
			if c := bytes.Compare(es[i].k, es[j].k); c != 0 {
				return c < 0
			}
			return bytes.Compare(es[i].v, es[j].v) < 0
		})
		b.WriteString("map{")
		for i, e := range es {
			if i > 0 {
				b.WriteByte(',')
			}
			b.Write(e.k)
			b.WriteByte(':')
			b.Write(e.v)
		}
		b.WriteByte('}')
	case reflect.Ptr:
		if v.IsNil() {
			b.WriteString("nil")
			return
		}
		b.WriteByte('&')
		canon(b, v.Elem(), depth+1)
	case reflect.Struct:
		b.WriteByte('{')
		for i := 0; i < v.NumField(); i++ {
			if i > 0 {
				b.WriteByte(' ')
			}
			b.WriteString(v.Type().Field(i).Name)
			b.WriteByte('=')
			canon(b, v.Field(i), depth+1)
		}
		b.WriteByte('}')
	case reflect.Interface:
		if v.IsNil() {
			b.WriteString("nil")
			return
		}
		canon(b, v.Elem(), depth+1)
	default:
		b.WriteString("<" + v.Kind().String() + ">")
	}
}

func writeBytes(b *bytes.Buffer, tag byte, p []byte) {
	b.WriteByte(tag)
	if len(p) <= 24 {
		var tmp [128]byte
		b.Write(strconv.AppendQuote(tmp[:0], string(p)))
		return
	}
	h := fnv.New64a()
	h.Write(p)
	b.WriteByte('[')
	wInt(b, int64(len(p)))
	b.WriteString("]#")
	b.WriteString(Hex64(h.Sum64()))
}

// ---------------------------------------------------------------- extents (C06)

// Extent is one piece of memory the decoder created for a transmitted value.
type Extent struct {
	Addr   uintptr
	Size   uintptr
	Align  uintptr
	NoCopy bool   // belongs to a nocopy field: allowed (indeed required) to alias the input
	What   string // path, for reports
}

// Extents walks a decoded object in lockstep with the wire tree it was decoded from and collects
// the address ranges of every pointer target, slice backing array (to capacity) and non-empty
// string/binary of the transmitted fields. Fields absent from the message (and therefore possibly
// set by the type's own default initialiser, e.g. to static string literals) are not visited.
//
// fresh says that the destination was zero before the decode: every non-nil pointer and non-empty slice in it was
// then created by this decode, whatever the message says, and parts of the object that the message does not
// describe (a map entry under a key the message does not have, a list of another length) are walked by shape alone.
func Extents(c *Corpus, s *StructDef, w *W, rv reflect.Value, path string, fresh bool, out *[]Extent) {
	last := map[uint16]*W{}
	for _, wf := range w.F {
		f := s.FieldByID(wf.ID)
		if f != nil && f.T.Wire() == wf.V.T {
			last[wf.ID] = wf.V
		}
	}
	for _, f := range s.Fields {
		wv := last[f.ID]
		if wv == nil {
			continue
		}
		fv := rv.FieldByName(f.Name)
		p := path + "." + f.Name
		if f.OptPtr {
			if fv.IsNil() {
				continue
			}
			*out = append(*out, Extent{fv.Pointer(), fv.Type().Elem().Size(), uintptr(fv.Type().Elem().Align()), false, p + "(ptr)"})
			fv = fv.Elem()
		}
		extValue(c, f.T, wv, fv, f.NoCopy, p, fresh, out)
	}
	if s.Unknown {
		fv := rv.FieldByName("_unknownFields")
		if fv.IsValid() && fv.Len() > 0 {
			*out = append(*out, Extent{fv.Pointer(), uintptr(fv.Cap()), 1, false, path + "._unknownFields"})
		}
	}
}

func extValue(c *Corpus, t *T, w *W, v reflect.Value, nocopy bool, path string, fresh bool, out *[]Extent) {
	switch t.K {
	case String:
		if v.Len() > 0 {
			s := v.String()
			*out = append(*out, Extent{uintptr(unsafe.Pointer(unsafe.StringData(s))), uintptr(len(s)), 1, nocopy, path})
		}
	case Binary:
		if v.Len() > 0 {
			*out = append(*out, Extent{v.Pointer(), uintptr(v.Cap()), 1, nocopy, path})
		}
	case Struct:
		sd := c.Get(t.S)
		if t.Ptr {
			if v.IsNil() {
				return
			}
			*out = append(*out, Extent{v.Pointer(), v.Type().Elem().Size(), uintptr(v.Type().Elem().Align()), false, path + "(ptr)"})
			v = v.Elem()
		}
		Extents(c, sd, w, v, path, fresh, out)
	case List, Set:
		if v.IsNil() || v.Len() == 0 {
			return
		}
		et := v.Type().Elem()
		*out = append(*out, Extent{v.Pointer(), uintptr(v.Cap()) * et.Size(), uintptr(et.Align()), false, path + "[]"})
		if t.Elem.Scalar() {
			return
		}
		if v.Len() != len(w.L) {
			if fresh {
				for i := 0; i < v.Len(); i++ {
					createdValue(c, t.Elem, v.Index(i), false, path+"["+strconv.Itoa(i)+"]?", out)
				}
			}
			return
		}
		for i := 0; i < v.Len(); i++ {
			extValue(c, t.Elem, w.L[i], v.Index(i), false, path+"["+strconv.Itoa(i)+"]", fresh, out)
		}
	case Map:
		if v.IsNil() || v.Len() == 0 {
			return
		}
		if t.Key.K == Struct {
			// entries cannot be matched to the wire by key bytes; in a destination that was zero before the call every
			// key object and every value was created by this decode and is walked by shape alone
			if fresh {
				createdValue(c, t, v, false, path, out)
			}
			return
		}
		idx := map[string]*W{}
		for i := 0; i+1 < len(w.L); i += 2 {
			idx[string(w.L[i].Append(nil))] = w.L[i+1]
		}
		it := v.MapRange()
		for it.Next() {
			k, e := it.Key(), it.Value()
			kb := keyBytes(t.Key, k)
			wv := idx[string(kb)]
			if wv == nil {
				if fresh {
					if t.Key.K == String && k.Len() > 0 {
						ks := k.String()
						*out = append(*out, Extent{uintptr(unsafe.Pointer(unsafe.StringData(ks))), uintptr(len(ks)), 1, false, path + "[" + hexBytes(kb) + "]?(key)"})
					}
					if !t.Elem.Scalar() {
						createdValue(c, t.Elem, e, false, path+"["+hexBytes(kb)+"]?", out)
					}
				}
				continue
			}
			kp := path + "[" + hexBytes(kb) + "]"
			if t.Key.K == String && k.Len() > 0 {
				s := k.String()
				*out = append(*out, Extent{uintptr(unsafe.Pointer(unsafe.StringData(s))), uintptr(len(s)), 1, false, kp + "(key)"})
			}
			if !t.Elem.Scalar() {
				extValue(c, t.Elem, wv, e, false, kp, fresh, out)
			}
		}
	}
}

// createdValue walks a value of a zero-initialised destination without the message: every pointer target, non-empty
// slice and non-empty string in it was created by the decode, except a string or binary field with a declared
// default, which may hold that default (shared by every decode) and is left out.
func createdValue(c *Corpus, t *T, v reflect.Value, nocopy bool, path string, out *[]Extent) {
	switch t.K {
	case String:
		if v.Len() > 0 {
			s := v.String()
			*out = append(*out, Extent{uintptr(unsafe.Pointer(unsafe.StringData(s))), uintptr(len(s)), 1, nocopy, path})
		}
	case Binary:
		if v.Len() > 0 {
			*out = append(*out, Extent{v.Pointer(), uintptr(v.Cap()), 1, nocopy, path})
		}
	case Struct:
		if t.Ptr {
			if v.IsNil() {
				return
			}
			*out = append(*out, Extent{v.Pointer(), v.Type().Elem().Size(), uintptr(v.Type().Elem().Align()), false, path + "(ptr)"})
			v = v.Elem()
		}
		sd := c.Get(t.S)
		for _, f := range sd.Fields {
			fv := v.FieldByName(f.Name)
			p := path + "." + f.Name
			if f.OptPtr {
				if fv.IsNil() {
					continue
				}
				*out = append(*out, Extent{fv.Pointer(), fv.Type().Elem().Size(), uintptr(fv.Type().Elem().Align()), false, p + "(ptr)"})
				fv = fv.Elem()
			}
			if f.Def != nil && (f.T.K == String || f.T.K == Binary) {
				continue
			}
			createdValue(c, f.T, fv, f.NoCopy, p, out)
		}
	case List, Set:
		if v.IsNil() || v.Len() == 0 {
			return
		}
		et := v.Type().Elem()
		*out = append(*out, Extent{v.Pointer(), uintptr(v.Cap()) * et.Size(), uintptr(et.Align()), false, path + "[]"})
		if t.Elem.Scalar() {
			return
		}
		for i := 0; i < v.Len(); i++ {
			createdValue(c, t.Elem, v.Index(i), false, path+"["+strconv.Itoa(i)+"]", out)
		}
	case Map:
		if v.IsNil() || v.Len() == 0 {
			return
		}
		if t.Key.K == Struct {
			// map iteration order is not ours: entries are named by their position in the sorted order of key addresses
			type ent struct{ k, e reflect.Value }
			var es []ent
			it := v.MapRange()
			for it.Next() {
				es = append(es, ent{it.Key(), it.Value()})
			}
			if !t.Key.Ptr {
				return
			}
			sort.Slice(es, func(i, j int) bool { return es[i].k.Pointer() < es[j].k.Pointer() })
			for i, x := range es {
				kp := path + "[#" + strconv.Itoa(i) + "]?"
				createdValue(c, t.Key, x.k, false, kp+"(key)", out)
				if !t.Elem.Scalar() {
					createdValue(c, t.Elem, x.e, false, kp, out)
				}
			}
			return
		}
		it := v.MapRange()
		for it.Next() {
			k, e := it.Key(), it.Value()
			kp := path + "[" + hexBytes(keyBytes(t.Key, k)) + "]?"
			if t.Key.K == String && k.Len() > 0 {
				s := k.String()
				*out = append(*out, Extent{uintptr(unsafe.Pointer(unsafe.StringData(s))), uintptr(len(s)), 1, false, kp + "(key)"})
			}
			if !t.Elem.Scalar() {
				createdValue(c, t.Elem, e, false, kp, out)
			}
		}
	}
}

// Scribble does to a decoded object what its owner may do to it with ordinary Go code: it adds an entry to every map,
// overwrites the elements of scalar and byte slices in place and sets scalars and the pointees of optional scalars
// (everything in place: the object keeps every piece of memory it had). Fields declared nocopy are left alone (writing through them would write into the input buffer).
// If the decoder shared anything mutable between this object and another one - or keeps a reference to it - the
// other object, or a later result, shows it.
func Scribble(c *Corpus, s *StructDef, rv reflect.Value, depth int) {
	if depth > 40 {
		return
	}
	for _, f := range s.Fields {
		if f.NoCopy {
			continue
		}
		fv := rv.FieldByName(f.Name)
		if f.OptPtr {
			if fv.IsNil() {
				continue
			}
			fv = fv.Elem()
		}
		scribbleT(c, f.T, fv, depth+1)
	}
}

func scribbleT(c *Corpus, t *T, v reflect.Value, depth int) {
	if depth > 40 {
		return
	}
	switch t.K {
	case Bool:
		if v.CanSet() {
			v.SetBool(true)
		}
	case I8, I16, I32, I64, Enum:
		if v.CanSet() {
			v.SetInt(0x5c)
		}
	case Double:
		if v.CanSet() {
			v.SetFloat(1.5)
		}
	case String:
		// immutable: nothing an owner can write into (and replacing the header would only release the bytes the
		// object's recorded extents still name)
	case Binary:
		for i := 0; i < v.Len(); i++ {
			v.Index(i).SetUint(0xcc)
		}
	case Struct:
		if t.Ptr {
			if v.IsNil() {
				return
			}
			v = v.Elem()
		}
		if v.CanAddr() {
			Scribble(c, c.Get(t.S), v, depth+1)
		}
	case List, Set:
		for i := 0; i < v.Len(); i++ {
			scribbleT(c, t.Elem, v.Index(i), depth+1)
		}
	case Map:
		if v.IsNil() {
			return
		}
		it := v.MapRange()
		for it.Next() {
			// values are not addressable; what they point to is
			if t.Elem.K == Struct && t.Elem.Ptr {
				scribbleT(c, t.Elem, it.Value(), depth+1)
			}
		}
		k := reflect.New(v.Type().Key()).Elem()
		switch t.Key.K {
		case Bool:
			k.SetBool(v.Len()%2 == 0)
		case I8, I16, I32, I64, Enum:
			k.SetInt(0x5b)
		case Double:
			k.SetFloat(2.5)
		case String:
			k.SetString("scribbled-key")
		case Struct:
			if !t.Key.Ptr {
				return
			}
			k.Set(reflect.New(v.Type().Key().Elem()))
		default:
			return
		}
		if !v.MapIndex(k).IsValid() { // never replace an entry: the object keeps everything it had
			v.SetMapIndex(k, reflect.Zero(v.Type().Elem()))
		}
	}
}

// HoldsNoCopy reports whether the object holds a non-empty string or binary in a field declared nocopy, anywhere:
// such an object legitimately changes when the buffer it was decoded from is overwritten. The walk goes by shape
// (it does not need the message), so it also sees entries of struct-keyed maps and prefilled destinations.
func HoldsNoCopy(c *Corpus, s *StructDef, rv reflect.Value, depth int) bool {
	if depth > 64 {
		return true
	}
	for _, f := range s.Fields {
		fv := rv.FieldByName(f.Name)
		if f.OptPtr {
			if fv.IsNil() {
				continue
			}
			fv = fv.Elem()
		}
		if f.NoCopy {
			if fv.Len() > 0 {
				return true
			}
			continue
		}
		if holdsNoCopyT(c, f.T, fv, depth+1) {
			return true
		}
	}
	return false
}

func holdsNoCopyT(c *Corpus, t *T, v reflect.Value, depth int) bool {
	switch t.K {
	case Struct:
		if t.Ptr {
			if v.IsNil() {
				return false
			}
			v = v.Elem()
		}
		return HoldsNoCopy(c, c.Get(t.S), v, depth+1)
	case List, Set:
		if t.Elem.Scalar() || t.Elem.K == String || t.Elem.K == Binary {
			return false
		}
		for i := 0; i < v.Len(); i++ {
			if holdsNoCopyT(c, t.Elem, v.Index(i), depth+1) {
				return true
			}
		}
	case Map:
		if v.IsNil() {
			return false
		}
		it := v.MapRange()
		for it.Next() {
			if holdsNoCopyT(c, t.Key, it.Key(), depth+1) || holdsNoCopyT(c, t.Elem, it.Value(), depth+1) {
				return true
			}
		}
	}
	return false
}

// keyBytes serialises a scalar/string Go map key the way it appears on the wire.
func keyBytes(t *T, k reflect.Value) []byte {
	switch t.K {
	case Bool:
		if k.Bool() {
			return []byte{1}
		}
		return []byte{0}
	case I8:
		return []byte{byte(k.Int())}
	case I16:
		return binary.BigEndian.AppendUint16(nil, uint16(k.Int()))
	case I32, Enum:
		return binary.BigEndian.AppendUint32(nil, uint32(k.Int()))
	case I64:
		return binary.BigEndian.AppendUint64(nil, uint64(k.Int()))
	case Double:
		return binary.BigEndian.AppendUint64(nil, math.Float64bits(k.Float()))
	case String:
		s := k.String()
		return append(binary.BigEndian.AppendUint32(nil, uint32(len(s))), s...)
	}
	return nil
}

func hexBytes(b []byte) string {
	const d = "0123456789abcdef"
	if len(b) > 12 {
		b = b[:12]
	}
	out := make([]byte, 0, 2*len(b))
	for _, c := range b {
		out = append(out, d[c>>4], d[c&15])
	}
	return string(out)
}

// Sf is a minimal Sprintf (%d %s %v %x %#x %q) that does not use package fmt's pooled printers.
func Sf(format string, args ...interface{}) string {
	out := make([]byte, 0, len(format)+32)
	ai := 0
	for i := 0; i < len(format); i++ {
		c := format[i]
		if c != '%' || i+1 >= len(format) {
			out = append(out, c)
			continue
		}
		i++
		alt := false
		if format[i] == '#' && i+1 < len(format) {
			alt = true
			i++
		}
		verb := format[i]
		if verb == '%' {
			out = append(out, '%')
			continue
		}
		if ai >= len(args) {
			out = append(out, "%!missing"...)
			continue
		}
		a := args[ai]
		ai++
		base := 10
		if verb == 'x' {
			base = 16
			if alt {
				out = append(out, "0x"...)
			}
		}
		switch v := a.(type) {
		case int:
			out = strconv.AppendInt(out, int64(v), base)
		case int8:
			out = strconv.AppendInt(out, int64(v), base)
		case int16:
			out = strconv.AppendInt(out, int64(v), base)
		case int32:
			out = strconv.AppendInt(out, int64(v), base)
		case int64:
			out = strconv.AppendInt(out, v, base)
		case uint8:
			out = strconv.AppendUint(out, uint64(v), base)
		case uint16:
			out = strconv.AppendUint(out, uint64(v), base)
		case uint32:
			out = strconv.AppendUint(out, uint64(v), base)
		case uint64:
			out = strconv.AppendUint(out, v, base)
		case uintptr:
			out = strconv.AppendUint(out, uint64(v), base)
		case string:
			if verb == 'q' {
				out = strconv.AppendQuote(out, v)
			} else {
				out = append(out, v...)
			}
		case []byte:
			if verb == 'x' {
				out = append(out, hexBytes(v)...)
			} else {
				out = strconv.AppendQuote(out, string(v))
			}
		case bool:
			out = strconv.AppendBool(out, v)
		case error:
			out = append(out, v.Error()...)
		default:
			out = append(out, "?"...)
		}
	}
	return string(out)
}
