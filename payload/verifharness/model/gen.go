package model

import (
	"fmt"
	"math"
	"strings"
)

// Rng is splitmix64 (same algorithm as the simulator's, duplicated so that this
// package has no dependencies).
type Rng struct{ s uint64 }

func NewRng(seed uint64) *Rng { return &Rng{s: seed} }

func (r *Rng) Next() uint64 {
	r.s += 0x9e3779b97f4a7c15
	z := r.s
	z = (z ^ (z >> 30)) * 0xbf58476d1ce4e5b9
	z = (z ^ (z >> 27)) * 0x94d049bb133111eb
	return z ^ (z >> 31)
}

func (r *Rng) Intn(n int) int {
	if n <= 1 {
		return 0
	}
	return int(r.Next() % uint64(n))
}

func (r *Rng) Chance(num, den int) bool { return r.Intn(den) < num }

func Mix(vs ...uint64) uint64 {
	h := uint64(0x243f6a8885a308d3)
	for _, v := range vs {
		h ^= v + 0x9e3779b97f4a7c15 + (h << 6) + (h >> 2)
		h *= 0xff51afd7ed558ccd
		h ^= h >> 33
	}
	return h
}

// interesting field ids: both sides of every 64-bit word boundary of a presence set, and the extremes.
var edgeIDs = []uint16{0, 1, 2, 15, 16, 62, 63, 64, 65, 126, 127, 128, 129, 191, 192, 255, 256, 257, 1023, 1024,
	4095, 4096, 4097, 32767, 32768, 65534, 65535}

type gen struct {
	r      *Rng
	c      *Corpus
	nextID int
}

func (g *gen) newName(prefix string) string {
	g.nextID++
	return fmt.Sprintf("%s%d", prefix, g.nextID)
}

// pickIDs draws n distinct field ids: mostly small and ascending, sometimes from the edge set.
func (g *gen) pickIDs(n int) []uint16 {
	used := map[uint16]bool{}
	var ids []uint16
	// 0-5: small ids; 6: mixed with edges; 7: mostly edges. (Large ids make frugal build a dense index of
	// max-id entries per type; keeping them to a minority of the types keeps child processes small. The fixed
	// Req* definitions cover every word boundary up to 65535 in any case.)
	mode := g.r.Intn(8)
	if mode <= 5 {
		mode = 0
	} else {
		mode -= 4
	}
	for len(ids) < n {
		var id uint16
		switch {
		case mode <= 1 || (mode == 2 && g.r.Chance(2, 3)):
			id = uint16(1 + g.r.Intn(3*n+2))
		default:
			id = edgeIDs[g.r.Intn(len(edgeIDs))]
			if g.r.Chance(1, 4) {
				id += uint16(g.r.Intn(3)) - 1
			}
		}
		if !used[id] {
			used[id] = true
			ids = append(ids, id)
		}
	}
	return ids
}

var scalarKinds = []Kind{Bool, I8, I16, I32, I64, Double, String, Binary, Enum}
var keyKinds = []Kind{Bool, I8, I16, I32, I64, Double, String, Enum}

func (g *gen) scalar(k Kind) *T {
	t := &T{K: k}
	if k == Enum {
		t.S = g.c.Enums[g.r.Intn(len(g.c.Enums))]
	}
	if k == I64 && g.r.Chance(1, 6) {
		t.GoName = g.c.Enums[g.r.Intn(len(g.c.Enums))] // plain i64 carried by the Go type that elsewhere is an enum
	}
	return t
}

// genType draws a type expression. structs lists the struct names that may be referenced.
func (g *gen) genType(depth int, structs []string) *T {
	r := g.r
	roll := r.Intn(100)
	switch {
	case depth <= 0 || roll < 45:
		if len(structs) > 0 && r.Chance(1, 4) {
			return &T{K: Struct, S: structs[r.Intn(len(structs))], Ptr: r.Chance(2, 3)}
		}
		return g.scalar(scalarKinds[r.Intn(len(scalarKinds))])
	case roll < 70:
		k := List
		if r.Chance(1, 3) {
			k = Set
		}
		return &T{K: k, Elem: g.genType(depth-1, structs)}
	default:
		var key *T
		if len(structs) > 0 && r.Chance(1, 12) {
			key = &T{K: Struct, S: structs[r.Intn(len(structs))], Ptr: true}
		} else {
			key = g.scalar(keyKinds[r.Intn(len(keyKinds))])
		}
		return &T{K: Map, Key: key, Elem: g.genType(depth-1, structs)}
	}
}

func hasSliceOrEnum(t *T) bool {
	switch t.K {
	case List, Set, Enum:
		return true
	case Map:
		return hasSliceOrEnum(t.Key) || hasSliceOrEnum(t.Elem)
	}
	return false
}

func (g *gen) decorate(s *StructDef, f *Field) {
	r := g.r
	f.Req = Req(r.Intn(3))
	k := f.T.K
	if f.Req == Optional && (f.T.Scalar() || k == String) && r.Chance(3, 5) {
		f.OptPtr = true
	}
	if (k == String || k == Binary) && r.Chance(1, 6) {
		f.NoCopy = true
	}
	if s.InitDefault && !f.OptPtr && (f.T.Scalar() || k == String || k == Binary) && r.Chance(1, 2) {
		f.Def = g.genScalarW(f.T, 12)
	}
	f.TagStyle = 0
	if r.Chance(1, 4) {
		f.TagStyle = 1
	} else if r.Chance(1, 10) {
		f.TagStyle = 2
	}
	if !hasSliceOrEnum(f.T) && r.Chance(1, 8) {
		f.OmitAnno = true
	}
	if r.Chance(1, 10) {
		f.Alias = 1 + r.Intn(3)
	}
}

func (g *gen) genStruct(name string, nfields int, depth int, structs []string) *StructDef {
	r := g.r
	s := &StructDef{Name: name, Cluster: -1}
	s.InitDefault = r.Chance(1, 3)
	s.Unknown = r.Chance(1, 3)
	if r.Chance(1, 4) {
		s.Decoys = 1 + r.Intn(7)
	}
	ids := g.pickIDs(nfields)
	for i := 0; i < nfields; i++ {
		f := &Field{ID: ids[i], Name: fmt.Sprintf("F%d", ids[i]), T: g.genType(depth, structs)}
		g.decorate(s, f)
		s.Fields = append(s.Fields, f)
	}
	return s
}

// GenOpts sizes a corpus.
type GenOpts struct {
	Leaves, Mids, Clusters int
}

// Generate builds the corpus for a seed.
func Generate(seed uint64) *Corpus {
	g := &gen{r: NewRng(Mix(seed, 0xc0)), c: &Corpus{Seed: seed}}
	c := g.c
	c.Enums = []string{"EnumA", "EnumB"}
	r := g.r
	var names []string
	add := func(s *StructDef) {
		c.Structs = append(c.Structs, s)
		if !s.Rejected() && !s.PanicInit && !s.HoldsPanic {
			names = append(names, s.Name) // what generated definitions may nest
		}
	}
	// fixed coverage structs: every scalar kind in every requiredness; every key kind x value form
	add(g.allScalars("AllScalars"))
	for _, s := range g.mapMatrix() {
		add(s)
	}
	for _, s := range g.requiredEdges() {
		add(s)
	}
	for _, s := range g.aliasAndFixed() {
		add(s)
	}
	// leaves
	for i := 0; i < 24; i++ {
		add(g.genStruct(g.newName("L"), 1+r.Intn(8), 2, nil))
	}
	// mids: reference earlier structs
	for i := 0; i < 40; i++ {
		add(g.genStruct(g.newName("M"), 1+r.Intn(10), 3, names))
	}
	// recursive clusters
	for ci := 0; ci < 8; ci++ {
		n := 1 + r.Intn(3)
		var cn []string
		for j := 0; j < n; j++ {
			cn = append(cn, g.newName("R"))
		}
		pool := append(append([]string(nil), cn...), names[r.Intn(len(names))])
		for j := 0; j < n; j++ {
			s := g.genStruct(cn[j], 2+r.Intn(5), 2, pool)
			s.Cluster = ci
			// make sure the cluster is really connected: field linking to the next member
			next := cn[(j+1)%n]
			link := &T{K: Struct, S: next, Ptr: true}
			var lt *T
			switch r.Intn(4) {
			case 0:
				lt = link
			case 1:
				lt = &T{K: List, Elem: link}
			case 2:
				// a map of the next member of the cluster, held by pointer or by value (a map of itself by value is
				// a legal recursive type)
				lt = &T{K: Map, Key: g.scalar(keyKinds[r.Intn(len(keyKinds))]), Elem: &T{K: Struct, S: next, Ptr: r.Chance(1, 2)}}
			default:
				lt = &T{K: List, Elem: &T{K: Struct, S: next, Ptr: false}}
			}
			id := uint16(20000 + j)
			f := &Field{ID: id, Name: fmt.Sprintf("F%d", id), T: lt}
			g.decorate(s, f)
			if f.Req == Required && lt == link {
				f.Req = Default // a required self-pointer could never terminate
			}
			s.Fields = append(s.Fields, f)
			fixRecursiveByValue(s, cn)
			for _, f := range s.Fields {
				if f.Req == Required && involvesStruct(f.T) {
					f.Req = Default // keep recursive values finite
				}
			}
			add(s)
		}
	}
	generated := append([]string(nil), names...)
	for _, s := range g.lateShapes() {
		add(s)
	}
	names = generated // (nothing generated or derived below nests a late shape)
	// invalid definitions, containers of them, bystanders
	for _, s := range g.invalids(names) {
		add(s)
	}
	c.index()
	return c
}

// fixRecursiveByValue turns direct by-value struct fields that point into the own cluster into pointers
// (Go forbids infinitely sized types); by-value elements of slices and maps are fine.
func fixRecursiveByValue(s *StructDef, cluster []string) {
	in := map[string]bool{}
	for _, n := range cluster {
		in[n] = true
	}
	for _, f := range s.Fields {
		if f.T.K == Struct && !f.T.Ptr && in[f.T.S] {
			f.T.Ptr = true
		}
	}
}

func (g *gen) allScalars(name string) *StructDef {
	s := &StructDef{Name: name, Cluster: -1, InitDefault: true, Unknown: true}
	id := uint16(1)
	for _, k := range scalarKinds {
		for req := Default; req <= Optional; req++ {
			f := &Field{ID: id, Name: fmt.Sprintf("F%d", id), T: g.scalar(k), Req: req}
			if req == Optional && k != Binary && id%2 == 0 {
				f.OptPtr = true
			}
			if req == Optional && !f.OptPtr {
				f.Def = g.genScalarW(f.T, 6)
			}
			s.Fields = append(s.Fields, f)
			id++
		}
	}
	return s
}

// mapMatrix: every map key kind x every value form, and every list/set element form, in a few structs.
func (g *gen) mapMatrix() []*StructDef {
	inner := &StructDef{Name: "MMInner", Cluster: -1}
	inner.Fields = []*Field{
		{ID: 1, Name: "F1", T: &T{K: I32}},
		{ID: 2, Name: "F2", T: &T{K: String}, Req: Optional, OptPtr: true},
		{ID: 3, Name: "F3", T: &T{K: I64}, Req: Required},
	}
	vals := func() []*T {
		return []*T{{K: Bool}, {K: I8}, {K: I16}, {K: I32}, {K: I64}, {K: Double}, {K: String}, {K: Binary}, g.scalar(Enum),
			{K: Struct, S: "MMInner", Ptr: true}, {K: Struct, S: "MMInner"},
			{K: List, Elem: &T{K: I32}}, {K: Set, Elem: &T{K: String}}, {K: Map, Key: &T{K: String}, Elem: &T{K: I64}}}
	}
	out := []*StructDef{inner}
	for _, kk := range append(append([]Kind(nil), keyKinds...), Struct) {
		s := &StructDef{Name: fmt.Sprintf("MM%d", len(out)), Cluster: -1}
		id := uint16(1)
		for _, v := range vals() {
			var key *T
			if kk == Struct {
				key = &T{K: Struct, S: "MMInner", Ptr: true}
			} else {
				key = g.scalar(kk)
			}
			s.Fields = append(s.Fields, &Field{ID: id, Name: fmt.Sprintf("F%d", id), T: &T{K: Map, Key: key, Elem: v}, Req: Req(int(id) % 3)})
			id++
		}
		out = append(out, s)
	}
	ls := &StructDef{Name: "MMLists", Cluster: -1, Unknown: true}
	id := uint16(1)
	for _, v := range vals() {
		k := List
		if id%3 == 0 {
			k = Set
		}
		ls.Fields = append(ls.Fields, &Field{ID: id, Name: fmt.Sprintf("F%d", id), T: &T{K: k, Elem: v}, Req: Req(int(id) % 3)})
		id++
	}
	out = append(out, ls)
	return out
}

// requiredEdges: structs whose required fields sit at presence-set word boundaries, nested in every position.
func (g *gen) requiredEdges() []*StructDef {
	var out []*StructDef
	sets := [][]uint16{{0, 63, 64}, {1, 62, 65, 127, 128}, {255, 256, 4095, 4096}, {32767, 32768, 65535}, {5}, {64}}
	for i, ids := range sets {
		s := &StructDef{Name: fmt.Sprintf("Req%d", i), Cluster: -1}
		for j, id := range ids {
			t := g.scalar([]Kind{I32, String, I64, Bool, Double}[j%5])
			s.Fields = append(s.Fields, &Field{ID: id, Name: fmt.Sprintf("F%d", id), T: t, Req: Required})
		}
		// a non-required neighbour with an id next to a required one
		nid := ids[0] + 2
		if s.FieldByID(nid) == nil {
			s.Fields = append(s.Fields, &Field{ID: nid, Name: fmt.Sprintf("F%d", nid), T: &T{K: I16}, Req: Optional, OptPtr: true})
		}
		out = append(out, s)
	}
	// nest them: field, list, set, map value, map key, by value and by pointer
	for i := 0; i < 6; i++ {
		in := out[i].Name
		in2 := out[(i+1)%6].Name
		s := &StructDef{Name: fmt.Sprintf("ReqNest%d", i), Cluster: -1, Unknown: i%2 == 0}
		s.Fields = []*Field{
			{ID: 1, Name: "F1", T: &T{K: Struct, S: in, Ptr: true}, Req: Req(i % 3)},
			{ID: 2, Name: "F2", T: &T{K: List, Elem: &T{K: Struct, S: in, Ptr: true}}},
			{ID: 3, Name: "F3", T: &T{K: Map, Key: &T{K: I32}, Elem: &T{K: Struct, S: in2, Ptr: true}}},
			{ID: 4, Name: "F4", T: &T{K: Map, Key: &T{K: Struct, S: in, Ptr: true}, Elem: &T{K: Struct, S: in2, Ptr: true}}, Req: Optional},
			{ID: 5, Name: "F5", T: &T{K: Struct, S: in2}, Req: Optional},
			{ID: 6, Name: "F6", T: &T{K: Set, Elem: &T{K: Struct, S: in2}}},
			{ID: uint16(60 + i), Name: fmt.Sprintf("F%d", 60+i), T: &T{K: I64}, Req: Required},
		}
		out = append(out, s)
	}
	return out
}

// aliasAndFixed: (a) structs whose non-required fields have ids that are congruent to a required id modulo 64
// (the same bit of another word of a presence set) or modulo other powers of two, and pairs of required ids that alias
// each other; (b) structs made only of non-optional fixed-width scalars, with and without the unknown-fields
// holder, reached by pointer, by value, in lists, sets and map values.
func (g *gen) aliasAndFixed() []*StructDef {
	var out []*StructDef
	mk := func(name string, unknown bool, fs ...*Field) *StructDef {
		s := &StructDef{Name: name, Cluster: -1, Unknown: unknown, Fields: fs}
		out = append(out, s)
		return s
	}
	f := func(id uint16, req Req, k Kind) *Field {
		x := &Field{ID: id, Name: fmt.Sprintf("F%d", id), Req: req, T: g.scalar(k)}
		if k == I64 {
			x.T.GoName = ""
		}
		if req == Optional && k != String && k != Binary {
			x.OptPtr = id%2 == 1
		}
		return x
	}
	mk("Alias0", false, f(5, Required, I32), f(69, Optional, I32), f(133, Default, String), f(4101, Optional, I64), f(65477, Default, I16))
	mk("Alias1", true, f(0, Required, String), f(63, Required, I64), f(64, Default, I32), f(127, Optional, I64), f(128, Default, Bool), f(191, Optional, Double))
	mk("Alias2", false, f(1, Required, I64), f(65, Default, I64), f(129, Optional, String), f(257, Default, I32), f(1025, Optional, I16), f(32769, Default, I8))
	mk("Alias3", true, f(5, Required, I32), f(69, Required, String), f(133, Required, I64), f(6, Optional, I32))
	mk("Alias4", false, f(62, Required, Bool), f(126, Default, I32), f(190, Optional, I32), f(254, Default, String), f(318, Optional, I64))
	mk("Alias5", false, f(64, Required, I32), f(0, Default, I32), f(128, Optional, I32), f(4160, Default, I64))
	// declared defaults of every scalar kind on optional non-pointer fields (and on a required and a default one):
	// zero and non-zero, +0 / -0 / NaN for doubles, empty and non-empty strings and binaries
	{
		d := func(id uint16, req Req, k Kind, i int64, b string) *Field {
			x := f(id, req, k)
			x.OptPtr = false
			x.Def = NewW(x.T.Wire())
			x.Def.I, x.Def.B = i, []byte(b)
			return x
		}
		s := mk("Defaults", true,
			d(1, Optional, Double, 0, ""), d(2, Optional, Double, int64(-1<<63), ""), d(3, Optional, Double, 0x7ff8000000000001, ""),
			d(4, Optional, Double, int64(math.Float64bits(1.5)), ""), d(5, Optional, I32, 0, ""), d(6, Optional, I32, 7, ""),
			d(7, Optional, I64, -1, ""), d(8, Optional, Bool, 1, ""), d(9, Optional, Bool, 0, ""), d(10, Optional, String, 0, ""),
			d(11, Optional, String, 0, "abc"), d(12, Optional, Binary, 0, ""), d(13, Optional, Binary, 0, "xy"), d(14, Optional, Enum, 3, ""),
			d(15, Optional, I8, -128, ""), d(16, Optional, I16, 256, ""), d(17, Required, I32, 42, ""), d(18, Default, String, 0, "dflt"),
			d(19, Required, Double, int64(math.Float64bits(2.5)), ""), f(20, Optional, I32))
		s.InitDefault = true
		// the same with fixed-width scalars only and no holder (a definition whose size could be thought constant)
		sc := mk("ScalarDefaults", false,
			d(1, Optional, I32, 7, ""), d(2, Optional, I64, 0, ""), d(3, Default, Bool, 1, ""), d(4, Optional, Double, int64(math.Float64bits(1.5)), ""),
			d(5, Required, I16, 3, ""), d(6, Optional, I8, -1, ""), d(7, Optional, Enum, 2, ""), f(8, Default, I32))
		sc.InitDefault = true
		// scalars and strings only (nothing in it keeps a pointer into anything else), string defaults built at run
		// time (odd ids) and literal ones
		fl := mk("FlatDefaults", false,
			d(1, Optional, String, 0, "flat-default-one-built-at-run-time"), d(2, Optional, I32, 5, ""), d(3, Optional, String, 0, "three"),
			d(4, Optional, String, 0, "literal default of field four"), d(5, Optional, String, 0, "five-five-five-five"), f(6, Default, I64), d(7, Default, String, 0, "seven"))
		fl.InitDefault = true
		mk("HoldDefaults", false,
			&Field{ID: 1, Name: "F1", T: &T{K: Struct, S: "Defaults", Ptr: true}},
			&Field{ID: 2, Name: "F2", T: &T{K: List, Elem: &T{K: Struct, S: "Defaults"}}},
			&Field{ID: 3, Name: "F3", T: &T{K: Map, Key: &T{K: I32}, Elem: &T{K: Struct, S: "Defaults", Ptr: true}}, Req: Optional},
			&Field{ID: 4, Name: "F4", T: &T{K: Struct, S: "Defaults"}},
			&Field{ID: 5, Name: "F5", T: &T{K: Struct, S: "ScalarDefaults"}, Req: Optional},
			&Field{ID: 6, Name: "F6", T: &T{K: List, Elem: &T{K: Struct, S: "ScalarDefaults", Ptr: true}}})
	}
	// pairs of unrelated definitions with the same largest id and the same number of fields whose other ids differ
	// by multiples of 64 (anything keyed by "id modulo word size" or by a summary of the id set confuses them)
	for i, ids := range [][2][]uint16{{{1, 2, 100}, {1, 66, 100}}, {{5, 70, 200, 300}, {5, 6, 200, 236}}, {{0, 63, 64, 4096}, {64, 127, 128, 4096}}} {
		for j, set := range ids {
			var fs []*Field
			for k, id := range set {
				fs = append(fs, f(id, []Req{Default, Required, Optional, Default}[k%4], []Kind{I32, String, I64, I16}[(k+j)%4]))
			}
			mk(fmt.Sprintf("IdSet%d%c", i, 'A'+j), j == 1, fs...)
		}
	}
	// field-less definitions (nothing but the holder, or nothing at all), and holders of them
	mk("EmptyN", false)
	mk("EmptyU", true)
	// a definition with more fields than fit in a byte-sized index: 256 fixed scalars, then variable-size ones
	{
		var fs []*Field
		for i := 1; i <= 256; i++ {
			fs = append(fs, f(uint16(i), Default, []Kind{I32, I16, I64, Bool, I8}[i%5]))
		}
		for i := 257; i <= 300; i++ {
			fs = append(fs, f(uint16(i), []Req{Default, Optional, Required}[i%3], []Kind{String, I32, Binary, String}[i%4]))
		}
		mk("Wide300", false, fs...)
	}
	// field counts on both sides of a byte-sized index
	for _, n := range []int{255, 256, 257} {
		var fs []*Field
		for i := 1; i <= n; i++ {
			fs = append(fs, f(uint16(i), []Req{Default, Default, Optional, Required}[i%4], []Kind{I32, I16, I64, Bool}[i%4]))
		}
		mk(fmt.Sprintf("Wide%d", n), n == 256, fs...)
	}
	mk("FixedU", true, f(1, Default, I32), f(2, Required, I64), f(3, Default, Bool), f(4, Default, Double))
	mk("FixedN", false, f(1, Default, I16), f(2, Required, I8), f(7, Default, I64))
	mk("FixedOneU", true, f(3, Default, I64))
	// by-value container elements whose own fields are all required but which still have parts a message may leave
	// out (a required by-value struct with optional fields; the unknown-fields holder): what the previous entry or
	// the previous message left in a recycled slot shows exactly there
	mk("OptLeaf", false, f(1, Optional, I32), f(2, Optional, String), f(3, Default, I64), f(4, Optional, Binary))
	mk("AllReqV", false, f(1, Required, I32), &Field{ID: 2, Name: "F2", T: &T{K: Struct, S: "OptLeaf"}, Req: Required}, f(3, Required, String))
	mk("AllReqU", true, f(1, Required, I32), f(2, Required, String))
	mk("HoldAllReq", false,
		&Field{ID: 1, Name: "F1", T: &T{K: Map, Key: &T{K: I32}, Elem: &T{K: Struct, S: "AllReqV"}}},
		&Field{ID: 2, Name: "F2", T: &T{K: Map, Key: &T{K: String}, Elem: &T{K: Struct, S: "AllReqU"}}},
		&Field{ID: 3, Name: "F3", T: &T{K: List, Elem: &T{K: Struct, S: "AllReqV"}}, Req: Optional},
		&Field{ID: 4, Name: "F4", T: &T{K: Struct, S: "AllReqU"}},
		&Field{ID: 5, Name: "F5", T: &T{K: Map, Key: &T{K: I64}, Elem: &T{K: Struct, S: "AllReqV", Ptr: true}}, Req: Optional},
		&Field{ID: 6, Name: "F6", T: &T{K: Map, Key: &T{K: I8}, Elem: &T{K: Map, Key: &T{K: I32}, Elem: &T{K: Struct, S: "AllReqU"}}}})
	// definitions whose own initialiser panics: the panic reaches the caller, and nothing frugal holds at that moment
	// (registration lock, half-built descriptors) may stay behind
	for i := 0; i < 3; i++ {
		s := mk(fmt.Sprintf("PanicInit%d", i), i == 1, f(1, Default, I32), f(2, Optional, String), f(3, Required, I64))
		s.PanicInit = true
	}
	// initialisers that depend on something loaded after the start-up warm-up (they panic only while the harness
	// says so, which it does around legacy warm-up calls and never around codec calls)
	for i := 0; i < 2; i++ {
		s := mk(fmt.Sprintf("LateInit%d", i), i == 1, f(1, Default, I32), f(2, Optional, I64), f(3, Required, String))
		s.InitDefault, s.LateInit = true, true
		s.Fields[1].OptPtr = false
		s.Fields[1].Def = NewW(WI64)
		s.Fields[1].Def.I = 7
	}
	mk("HoldLateInit", false,
		&Field{ID: 1, Name: "F1", T: &T{K: Struct, S: "LateInit0", Ptr: true}},
		&Field{ID: 2, Name: "F2", T: &T{K: List, Elem: &T{K: Struct, S: "LateInit1"}}},
		&Field{ID: 3, Name: "F3", T: &T{K: I64}})
	mk("HoldPanicInit", false,
		&Field{ID: 1, Name: "F1", T: &T{K: Struct, S: "FixedN", Ptr: true}},
		&Field{ID: 2, Name: "F2", T: &T{K: List, Elem: &T{K: Struct, S: "PanicInit2", Ptr: true}}},
		&Field{ID: 3, Name: "F3", T: &T{K: I64}}).HoldsPanic = true
	// nocopy views and the unknown-fields holder in the same definition (both refer to the message: one by design,
	// the other must not), at the top level and nested
	{
		nc := func(id uint16, req Req, k Kind) *Field {
			x := f(id, req, k)
			x.NoCopy = true
			x.OptPtr = false
			return x
		}
		mk("NcU", true, nc(1, Default, String), f(2, Default, I32), nc(3, Optional, Binary), f(4, Optional, I64), f(9, Default, String))
		mk("HoldNcU", true,
			&Field{ID: 1, Name: "F1", T: &T{K: Struct, S: "NcU", Ptr: true}},
			&Field{ID: 2, Name: "F2", T: &T{K: List, Elem: &T{K: Struct, S: "NcU"}}, Req: Optional},
			&Field{ID: 3, Name: "F3", T: &T{K: Map, Key: &T{K: String}, Elem: &T{K: Struct, S: "NcU", Ptr: true}}},
			&Field{ID: 4, Name: "F4", T: &T{K: Struct, S: "NcU"}},
			nc(5, Optional, String))
	}
	// a map type that occurs inside its own value type, by value and by pointer: the decode of an inner map runs
	// while the outer one is between decoding an entry and storing it
	for _, ptr := range []bool{false, true} {
		n := "RecMapV"
		if ptr {
			n = "RecMapP"
		}
		mk(n, false, f(1, Default, String),
			&Field{ID: 2, Name: "F2", T: &T{K: List, Elem: &T{K: I64}}},
			&Field{ID: 3, Name: "F3", T: &T{K: Map, Key: &T{K: String}, Elem: &T{K: Struct, S: n, Ptr: ptr}}},
			&Field{ID: 4, Name: "F4", T: &T{K: Map, Key: &T{K: I32}, Elem: &T{K: Struct, S: n, Ptr: ptr}}, Req: Optional})
	}
	// second, independent holders of the same inner definitions (which holder is used first must not matter)
	for _, in := range []string{"FixedU", "FixedN", "EmptyU"} {
		mk("Also"+in, false,
			&Field{ID: 1, Name: "F1", T: &T{K: Struct, S: in}, Req: Required},
			&Field{ID: 2, Name: "F2", T: &T{K: I32}},
			&Field{ID: 3, Name: "F3", T: &T{K: Struct, S: in, Ptr: true}, Req: Optional})
	}
	for i, in := range []string{"FixedU", "FixedN", "FixedOneU", "Alias1", "Alias3", "EmptyN", "EmptyU"} {
		mk(fmt.Sprintf("Hold%s", in), i%2 == 0,
			&Field{ID: 1, Name: "F1", T: &T{K: Struct, S: in, Ptr: true}},
			&Field{ID: 2, Name: "F2", T: &T{K: List, Elem: &T{K: Struct, S: in, Ptr: true}}},
			&Field{ID: 3, Name: "F3", T: &T{K: List, Elem: &T{K: Struct, S: in}}, Req: Optional},
			&Field{ID: 4, Name: "F4", T: &T{K: Map, Key: &T{K: I32}, Elem: &T{K: Struct, S: in, Ptr: true}}},
			&Field{ID: 5, Name: "F5", T: &T{K: Map, Key: &T{K: String}, Elem: &T{K: Struct, S: in}}, Req: Optional},
			&Field{ID: 6, Name: "F6", T: &T{K: Struct, S: in}},
			&Field{ID: 7, Name: "F7", T: &T{K: Set, Elem: &T{K: Struct, S: in, Ptr: true}}, Req: Required},
		)
	}
	return out
}

// lateShapes: hand-written definitions added after the detection matrix of the generated corpus had been established.
// They are created after the generated definitions and with a random stream of their own, so that adding one never
// changes which definitions the generator produces (a check must not lose a shape it relied on because an unrelated
// shape was added in front of it), and generated definitions never nest them.
func (g *gen) lateShapes() []*StructDef {
	saved := g.r
	g.r = NewRng(Mix(g.c.Seed, 0x1a7e5))
	defer func() { g.r = saved }()
	var out []*StructDef
	mk := func(name string, unknown bool, fs ...*Field) *StructDef {
		s := &StructDef{Name: name, Cluster: -1, Unknown: unknown, Fields: fs}
		out = append(out, s)
		return s
	}
	f := func(id uint16, req Req, k Kind) *Field {
		x := &Field{ID: id, Name: fmt.Sprintf("F%d", id), Req: req, T: g.scalar(k)}
		if k == I64 {
			x.T.GoName = ""
		}
		if req == Optional && k != String && k != Binary {
			x.OptPtr = id%2 == 1
		}
		return x
	}
	// twelve small clusters A{*B, *Leaf, list<*Leaf2>}, B{*A, string}: the inner definition B is complete (and could
	// be published) long before the outer one has linked the fields that follow its back edge; each cluster can be
	// used for the first time once per process, and a schedule world goes through several per run
	for d := 0; d < 12; d++ {
		a, b2, l1, l2 := fmt.Sprintf("PubA%d", d), fmt.Sprintf("PubB%d", d), fmt.Sprintf("PubLeaf%d", d), fmt.Sprintf("PubLeafX%d", d)
		mk(l1, false, f(1, Default, I32), f(2, Default, String)).Cluster = 910 + d
		mk(l2, d%2 == 0, f(1, Required, I64), f(2, Optional, String)).Cluster = 910 + d
		mk(a, false,
			&Field{ID: 1, Name: "F1", T: &T{K: Struct, S: b2, Ptr: true}},
			&Field{ID: 2, Name: "F2", T: &T{K: Struct, S: l1, Ptr: true}},
			&Field{ID: 3, Name: "F3", T: &T{K: List, Elem: &T{K: Struct, S: l2, Ptr: true}}},
			f(4, Default, I32)).Cluster = 910 + d
		mk(b2, false,
			&Field{ID: 1, Name: "F1", T: &T{K: Struct, S: a, Ptr: true}, Req: Optional},
			f(2, Default, String),
			&Field{ID: 3, Name: "F3", T: &T{K: Map, Key: &T{K: I32}, Elem: &T{K: Struct, S: a, Ptr: true}}, Req: Optional}).Cluster = 910 + d
	}
	// hand-written definitions that contain themselves (a linked list, a tree): values of these can be nested
	// hundreds or thousands of levels deep
	mk("RecNode", false, f(1, Default, I32), f(2, Default, String),
		&Field{ID: 3, Name: "F3", T: &T{K: Struct, S: "RecNode", Ptr: true}, Req: Optional}).Cluster = 900
	mk("RecTree", true, f(1, Default, String),
		&Field{ID: 2, Name: "F2", T: &T{K: List, Elem: &T{K: Struct, S: "RecTree", Ptr: true}}},
		f(3, Optional, I64)).Cluster = 901
	// many required fields in one definition: 64, 65 and 70 (one more than a machine word has bits)
	for _, n := range []int{64, 65, 70} {
		var fs []*Field
		for i := 1; i <= n; i++ {
			fs = append(fs, f(uint16(i*3), Required, []Kind{I32, I16, I64, Bool, String}[i%5]))
		}
		fs = append(fs, f(1, Optional, I32), f(2, Default, String))
		mk(fmt.Sprintf("Req%dFields", n), n == 65, fs...)
	}
	mk("HoldReqFields", false,
		&Field{ID: 1, Name: "F1", T: &T{K: Struct, S: "Req65Fields", Ptr: true}},
		&Field{ID: 2, Name: "F2", T: &T{K: List, Elem: &T{K: Struct, S: "Req70Fields"}}, Req: Optional},
		&Field{ID: 3, Name: "F3", T: &T{K: Map, Key: &T{K: I32}, Elem: &T{K: Struct, S: "Req64Fields", Ptr: true}}})
	// a chain of 40 different definitions, each holding the next (by pointer, by value, in a list, in a map):
	// nesting that is deep in the type, not only in the value
	for i := 39; i >= 0; i-- {
		fs := []*Field{f(1, Default, I32), f(2, Optional, String)}
		if i < 39 {
			next := fmt.Sprintf("Chain%02d", i+1)
			var t *T
			switch i % 4 {
			case 0:
				t = &T{K: Struct, S: next, Ptr: true}
			case 1:
				t = &T{K: Struct, S: next}
			case 2:
				t = &T{K: List, Elem: &T{K: Struct, S: next, Ptr: true}}
			default:
				t = &T{K: Map, Key: &T{K: I16}, Elem: &T{K: Struct, S: next, Ptr: true}}
			}
			fs = append(fs, &Field{ID: 3, Name: "F3", T: t})
		}
		mk(fmt.Sprintf("Chain%02d", i), i%7 == 0, fs...)
	}
	// (what shows after such a failure is what the enclosing registration leaves behind: holders in three forms)
	mk("HoldPanicInitB", false,
		f(1, Default, I32),
		&Field{ID: 2, Name: "F2", T: &T{K: Struct, S: "FixedU", Ptr: true}},
		&Field{ID: 3, Name: "F3", T: &T{K: Struct, S: "PanicInit0", Ptr: true}, Req: Optional}).HoldsPanic = true
	mk("HoldPanicInitC", false,
		&Field{ID: 1, Name: "F1", T: &T{K: Map, Key: &T{K: String}, Elem: &T{K: Struct, S: "Alias1", Ptr: true}}},
		&Field{ID: 2, Name: "F2", T: &T{K: Map, Key: &T{K: I32}, Elem: &T{K: Struct, S: "PanicInit1"}}}).HoldsPanic = true
	// the last variable-size field of a nested struct is a nocopy view, and strings follow that the enclosing
	// container decodes itself (the next map key, the next list element)
	{
		nc := func(id uint16, req Req, k Kind) *Field {
			x := f(id, req, k)
			x.NoCopy = true
			x.OptPtr = false
			return x
		}
		mk("NcLast", false, f(1, Default, I64), f(2, Default, String), nc(3, Default, Binary))
		mk("NcLastS", false, nc(1, Required, String), f(2, Default, I32))
		mk("HoldNcLast", false,
			&Field{ID: 1, Name: "F1", T: &T{K: Map, Key: &T{K: String}, Elem: &T{K: Struct, S: "NcLast", Ptr: true}}},
			&Field{ID: 2, Name: "F2", T: &T{K: Map, Key: &T{K: String}, Elem: &T{K: Struct, S: "NcLastS"}}, Req: Optional},
			&Field{ID: 3, Name: "F3", T: &T{K: Map, Key: &T{K: Struct, S: "NcLastS", Ptr: true}, Elem: &T{K: String}}, Req: Optional},
			&Field{ID: 4, Name: "F4", T: &T{K: List, Elem: &T{K: Map, Key: &T{K: String}, Elem: &T{K: Struct, S: "NcLast"}}}, Req: Optional},
			f(5, Default, String))
	}
	return out
}

// ---------------------------------------------------------------- invalid definitions (C13)

// InvalidClasses lists the defect classes the property enumerates, each with the raw Go field
// declarations that instantiate it. %B is replaced by a bystander struct name.
var InvalidClasses = []struct {
	Class  string
	Fields []string
}{
	{"kind/uint", []string{"A uint `frugal:\"1,default,i64\"`"}},
	{"kind/uint8", []string{"A uint8 `frugal:\"1,default,i8\"`"}},
	{"kind/uint16", []string{"A uint16 `frugal:\"1,default,i16\"`"}},
	{"kind/uint32", []string{"A uint32 `frugal:\"1,default,i32\"`"}},
	{"kind/uint64", []string{"A uint64 `frugal:\"1,default,i64\"`"}},
	{"kind/float32", []string{"A float32 `frugal:\"1,default,double\"`"}},
	{"kind/array", []string{"A [4]int32 `frugal:\"1,default,list<i32>\"`"}},
	{"kind/chan", []string{"A chan int32 `frugal:\"1,default,i32\"`"}},
	{"kind/func", []string{"A func() `frugal:\"1,default,i32\"`"}},
	{"kind/interface", []string{"A interface{} `frugal:\"1,default,i32\"`"}},
	{"kind/complex", []string{"A complex128 `frugal:\"1,default,double\"`"}},
	{"kind/uintptr", []string{"A uintptr `frugal:\"1,default,i64\"`"}},
	{"kind/unsafe-pointer", []string{"A unsafe.Pointer `frugal:\"1,default,i64\"`"}},
	{"kind/list-elem-uint", []string{"A []uint32 `frugal:\"1,default,list<i32>\"`"}},
	{"kind/map-value-float32", []string{"A map[int32]float32 `frugal:\"1,default,map<i32:double>\"`"}},
	{"slice/no-annotation", []string{"A []int32 `frugal:\"1,default\"`"}},
	{"slice/no-annotation-nested", []string{"A map[int32][]int32 `frugal:\"1,default\"`"}},
	{"slice/no-annotation-thrift-tag", []string{"A []string `thrift:\"a,1,default\"`"}},
	{"anno/scalar-mismatch", []string{"A int32 `frugal:\"1,default,i64\"`"}},
	{"anno/string-as-binary", []string{"A string `frugal:\"1,default,binary\"`"}},
	{"anno/binary-as-string", []string{"A []byte `frugal:\"1,default,string\"`"}},
	{"anno/map-key-mismatch", []string{"A map[string]int32 `frugal:\"1,default,map<i32:i32>\"`"}},
	{"anno/map-value-mismatch", []string{"A map[string]int32 `frugal:\"1,default,map<string:string>\"`"}},
	{"anno/list-elem-mismatch", []string{"A []int32 `frugal:\"1,default,list<i64>\"`"}},
	{"anno/struct-name-mismatch", []string{"A *%B `frugal:\"1,default,NotTheName\"`"}},
	{"anno/enum-name-mismatch", []string{"A EnumA `frugal:\"1,default,EnumB\"`"}},
	{"anno/enum-name-on-int64", []string{"A int64 `frugal:\"1,default,EnumA\"`"}},
	{"anno/map-value-struct-name-mismatch", []string{"A map[string]*%B `frugal:\"1,default,map<string:SomethingElse>\"`"}},
	{"anno/set-elem-mismatch", []string{"A []string `frugal:\"1,default,set<i32>\"`"}},
	{"anno/qualified-name-on-binary", []string{"A []byte `frugal:\"1,default,foo.Bar\"`"}},
	{"anno/qualified-name-on-map", []string{"A map[string]int64 `frugal:\"1,default,foo.Bar<string:i64>\"`"}},
	{"anno/qualified-name-on-binary-map-value", []string{"A map[string][]byte `frugal:\"1,default,map<string:foo.Bar>\"`"}},
	{"anno/qualified-name-on-binary-list-elem", []string{"A [][]byte `frugal:\"1,default,list<base.Item>\"`"}},
	{"anno/qualified-name-on-string", []string{"A string `frugal:\"1,default,foo.Bar\"`"}},
	{"anno/qualified-wrong-struct-name", []string{"A *%B `frugal:\"1,default,foo.NotTheName\"`"}},
	{"anno/list-on-map", []string{"A map[int32]int32 `frugal:\"1,default,list<i32>\"`"}},
	{"anno/map-on-list", []string{"A []int32 `frugal:\"1,default,map<i32:i32>\"`"}},
	{"anno/scalar-on-struct", []string{"A *%B `frugal:\"1,default,i32\"`"}},
	{"syntax/unclosed-list", []string{"A []int32 `frugal:\"1,default,list<i32\"`"}},
	{"syntax/unclosed-map", []string{"A map[int32]int32 `frugal:\"1,default,map<i32:i32\"`"}},
	{"syntax/map-comma", []string{"A map[int32]int32 `frugal:\"1,default,map<i32;i32>\"`"}},
	{"syntax/map-comma-split", []string{"A map[int32]int32 `frugal:\"1,default,map<i32,i32>\"`"}},
	{"syntax/list-no-open", []string{"A []int32 `frugal:\"1,default,list i32>\"`"}},
	{"syntax/list-empty", []string{"A []int32 `frugal:\"1,default,list<>\"`"}},
	{"syntax/map-no-colon", []string{"A map[int32]int32 `frugal:\"1,default,map<i32 i32>\"`"}},
	{"syntax/garbage", []string{"A []int32 `frugal:\"1,default,<<>>\"`"}},
	{"key/pointer-scalar", []string{"A map[*int32]int32 `frugal:\"1,default,map<i32:i32>\"`"}},
	{"key/struct-by-value", []string{"A map[ByKeyLeaf]int32 `frugal:\"1,default,map<ByKeyLeaf:i32>\"`"}},
	{"key/float32", []string{"A map[float32]int32 `frugal:\"1,default,map<double:i32>\"`"}},
	{"key/array", []string{"A map[[2]int32]int32 `frugal:\"1,default,map<i32:i32>\"`"}},
	{"key/interface", []string{"A map[interface{}]int32 `frugal:\"1,default,map<i32:i32>\"`"}},
	{"ptr/list-elem-scalar", []string{"A []*int32 `frugal:\"1,default,list<i32>\"`"}},
	{"ptr/list-elem-string", []string{"A []*string `frugal:\"1,default,list<string>\"`"}},
	{"ptr/map-value-scalar", []string{"A map[int32]*int64 `frugal:\"1,default,map<i32:i64>\"`"}},
	{"ptr/map-value-string", []string{"A map[string]*string `frugal:\"1,default,map<string:string>\"`"}},
	{"ptr/list-elem-binary", []string{"A []*[]byte `frugal:\"1,default,list<binary>\"`"}},
	{"ptr/map-value-binary", []string{"A map[string]*[]byte `frugal:\"1,default,map<string:binary>\"`"}},
	{"ptr/nested-set-elem-binary", []string{"A map[int32][]*[]byte `frugal:\"1,default,map<i32:set<binary>>\"`"}},
	{"ptr/list-elem-bool", []string{"A []*bool `frugal:\"1,default,list<bool>\"`"}},
	{"ptr/list-elem-double", []string{"A []*float64 `frugal:\"1,default,set<double>\"`"}},
	{"ptr/map-value-enum", []string{"A map[int64]*EnumA `frugal:\"1,default,map<i64:EnumA>\"`"}},
	{"ptr/default-field-scalar", []string{"A *int32 `frugal:\"1,default,i32\"`"}},
	{"ptr/required-field-string", []string{"A *string `frugal:\"1,required,string\"`"}},
	{"ptrptr/struct", []string{"A **%B `frugal:\"1,optional,%B\"`"}},
	{"ptrptr/scalar", []string{"A **int32 `frugal:\"1,optional,i32\"`"}},
	{"ptrptr/list-elem", []string{"A []**%B `frugal:\"1,default,list<%B>\"`"}},
	{"ptr/to-list", []string{"A *[]int32 `frugal:\"1,optional,list<i32>\"`"}},
	{"ptr/to-map", []string{"A *map[int32]int32 `frugal:\"1,optional,map<i32:i32>\"`"}},
	{"ptr/to-set-of-struct", []string{"A *[]*%B `frugal:\"1,optional,set<%B>\"`"}},
	{"id/duplicate", []string{"A int32 `frugal:\"1,default,i32\"`", "B int32 `frugal:\"1,default,i32\"`"}},
	{"id/duplicate-max", []string{"A int32 `frugal:\"65535,default,i32\"`", "B int32 `frugal:\"65535,default,i32\"`"}},
	{"id/duplicate-around-max", []string{"A int32 `frugal:\"5,default,i32\"`", "B string `frugal:\"65535,default,string\"`", "C int32 `frugal:\"5,default,i32\"`"}},
	{"id/duplicate-zero", []string{"A int32 `frugal:\"0,default,i32\"`", "B int64 `frugal:\"0,default,i64\"`"}},
	{"id/duplicate-far-apart", []string{"A int32 `frugal:\"3,default,i32\"`", "M1 int32 `frugal:\"300,default,i32\"`", "M2 string `frugal:\"2,default,string\"`", "B int32 `frugal:\"3,required,i32\"`"}},
	{"id/duplicate-mixed-tags", []string{"A int32 `frugal:\"7,default,i32\"`", "B string `thrift:\"b,7,default\"`"}},
	{"id/non-numeric", []string{"A int32 `frugal:\"x,default,i32\"`"}},
	{"id/empty", []string{"A int32 `frugal:\",default,i32\"`"}},
	{"id/negative", []string{"A int32 `frugal:\"-1,default,i32\"`"}},
	{"id/out-of-range", []string{"A int32 `frugal:\"65536,default,i32\"`"}},
	{"id/huge", []string{"A int32 `frugal:\"4294967297,default,i32\"`"}},
	{"id/plus-sign", []string{"A int32 `frugal:\"+1,default,i32\"`"}},
	{"id/float", []string{"A int32 `frugal:\"1.0,default,i32\"`"}},
	{"id/hex", []string{"A int32 `frugal:\"0x10,default,i32\"`"}},
	{"req/unknown", []string{"A int32 `frugal:\"1,mandatory,i32\"`"}},
	{"req/capitalised", []string{"A int32 `frugal:\"1,Required,i32\"`"}},
	{"req/type-in-its-place", []string{"A int32 `frugal:\"1,i32\"`"}},
	{"opt/unknown", []string{"A string `frugal:\"1,default,string,fast\"`"}},
	{"opt/nocopy-on-int", []string{"A int32 `frugal:\"1,default,i32,nocopy\"`"}},
	{"opt/nocopy-on-list", []string{"A []string `frugal:\"1,default,list<string>,nocopy\"`"}},
	{"opt/nocopy-twice", []string{"A string `frugal:\"1,default,string,nocopy,nocopy\"`"}},
	{"opt/empty", []string{"A string `frugal:\"1,default,string,\"`"}},
}

// invalids instantiates every class at the top level, nested under valid-looking containers at several
// positions, and inside mutually recursive clusters; plus bystanders sharing sub-structs with them.
func (g *gen) invalids(valid []string) []*StructDef {
	var out []*StructDef
	shared := &StructDef{Name: "BySharedLeaf", Cluster: -1, Fields: []*Field{
		{ID: 1, Name: "F1", T: &T{K: I32}}, {ID: 2, Name: "F2", T: &T{K: String}, Req: Optional, OptPtr: true},
		{ID: 3, Name: "F3", T: &T{K: List, Elem: &T{K: I64}}}}}
	out = append(out, shared)
	out = append(out, &StructDef{Name: "ByKeyLeaf", Cluster: -1, Fields: []*Field{{ID: 1, Name: "F1", T: &T{K: I32}}}})
	for i, ic := range InvalidClasses {
		name := fmt.Sprintf("Bad%d", i)
		bad := &StructDef{Name: name, Cluster: -1, Invalid: ic.Class}
		for _, f := range ic.Fields {
			bad.RawFields = append(bad.RawFields, strings.ReplaceAll(f, "%B", "BySharedLeaf"))
		}
		// a valid field before and after the defect, so that the defect is not the only field
		if i%3 == 1 {
			bad.RawFields = append([]string{"Ok0 int64 `frugal:\"100,default,i64\"`"}, bad.RawFields...)
		}
		if i%3 == 2 {
			bad.RawFields = append(bad.RawFields, "Ok9 string `frugal:\"200,default,string\"`")
		}
		out = append(out, bad)
		// containers: the invalid definition reached through a valid-looking one
		pos := i % 7
		var ft *T
		link := &T{K: Struct, S: name, Ptr: true}
		switch pos {
		case 0:
			ft = link
		case 1:
			ft = &T{K: List, Elem: link}
		case 2:
			ft = &T{K: Map, Key: &T{K: String}, Elem: link}
		case 3:
			ft = &T{K: Map, Key: &T{K: I32}, Elem: &T{K: List, Elem: link}}
		case 5:
			ft = &T{K: Map, Key: link, Elem: &T{K: String}} // reachable only as the pointer key of a map with a valid value
		case 6:
			ft = &T{K: Map, Key: link, Elem: &T{K: Struct, S: "BySharedLeaf", Ptr: true}}
		default:
			ft = &T{K: Struct, S: name, Ptr: false}
		}
		cont := &StructDef{Name: fmt.Sprintf("Has%d", i), Cluster: -1, ContainsInvalid: true, Fields: []*Field{
			{ID: 1, Name: "F1", T: &T{K: Struct, S: "BySharedLeaf", Ptr: true}},
			{ID: 2, Name: "F2", T: ft, Req: Req(i % 3)},
			{ID: 3, Name: "F3", T: &T{K: String}},
		}}
		out = append(out, cont)
		if i%5 == 3 {
			// a valid definition that nothing else uses, met for the first time inside this container - before the
			// field that gets the container rejected - and later used on its own (a bystander of the failed registration)
			leaf := fmt.Sprintf("ByVal%d", i)
			out = append(out, &StructDef{Name: leaf, Cluster: -1, Fields: []*Field{
				{ID: 1, Name: "F1", T: &T{K: I32}},
				{ID: 2, Name: "F2", T: &T{K: Struct, S: "ByKeyLeaf", Ptr: true}},
				{ID: 3, Name: "F3", T: &T{K: String}, Req: Optional, OptPtr: true},
			}})
			switch (i / 5) % 6 {
			case 0:
				cont.Fields[0].T = &T{K: Struct, S: leaf}
			case 1:
				cont.Fields[0].T = &T{K: List, Elem: &T{K: Struct, S: leaf}}
			case 2:
				cont.Fields[0].T = &T{K: Map, Key: &T{K: I32}, Elem: &T{K: Struct, S: leaf}}
			case 3:
				cont.Fields[0].T = &T{K: List, Elem: &T{K: Struct, S: leaf, Ptr: true}}
			case 4:
				cont.Fields[0].T = &T{K: Map, Key: &T{K: String}, Elem: &T{K: Struct, S: leaf, Ptr: true}}
			default:
				cont.Fields[0].T = &T{K: Struct, S: leaf, Ptr: true}
			}
			// and a valid definition that holds the leaf in exactly the same Go type with the same annotation: whatever
			// is cached per (Go type, annotation) during the failed registration is met again here
			ft := *cont.Fields[0].T
			out = append(out, &StructDef{Name: fmt.Sprintf("ByHold%d", i), Cluster: -1, Fields: []*Field{
				{ID: 1, Name: "F1", T: &ft},
				{ID: 2, Name: "F2", T: &T{K: I32}},
			}})
		}
		if i%4 == 0 {
			// second level: contains a container
			out = append(out, &StructDef{Name: fmt.Sprintf("HasHas%d", i), Cluster: -1, ContainsInvalid: true, Fields: []*Field{
				{ID: 1, Name: "F1", T: &T{K: I32}},
				{ID: 2, Name: "F2", T: &T{K: List, Elem: &T{K: Struct, S: cont.Name, Ptr: true}}},
			}})
		}
		if i%4 == 1 {
			// mutually recursive cluster reaching the invalid definition: RA{*RB}, RB{*RA,*Bad}
			ra, rb := fmt.Sprintf("RecA%d", i), fmt.Sprintf("RecB%d", i)
			out = append(out, &StructDef{Name: ra, Cluster: 1000 + i, ContainsInvalid: true, Fields: []*Field{
				{ID: 1, Name: "F1", T: &T{K: Struct, S: rb, Ptr: true}},
				{ID: 2, Name: "F2", T: &T{K: I32}},
			}})
			out = append(out, &StructDef{Name: rb, Cluster: 1000 + i, ContainsInvalid: true, Fields: []*Field{
				{ID: 1, Name: "F1", T: &T{K: Struct, S: ra, Ptr: true}},
				{ID: 2, Name: "F2", T: link},
				{ID: 3, Name: "F3", T: &T{K: Struct, S: "BySharedLeaf", Ptr: true}},
			}})
		}
		if i%6 == 0 {
			// bystander: valid, shares the leaf with the containers
			out = append(out, &StructDef{Name: fmt.Sprintf("By%d", i), Cluster: -1, Fields: []*Field{
				{ID: 1, Name: "F1", T: &T{K: Struct, S: "BySharedLeaf", Ptr: true}},
				{ID: 2, Name: "F2", T: &T{K: Map, Key: &T{K: String}, Elem: &T{K: Struct, S: "BySharedLeaf", Ptr: true}}},
				{ID: 3, Name: "F3", T: &T{K: I64}, Req: Required},
			}})
		}
	}
	return out
}
