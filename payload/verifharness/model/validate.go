package model

import "encoding/binary"

// Verdict of the reference validator. It is deliberately three-valued:
// Unspec marks inputs whose acceptance the properties do not settle (bool byte
// other than 0/1, nesting deeper than 48 levels, an empty container with an
// undefined element type code inside a skipped field); Unspec never produces a
// verdict in a check.
type Verdict int

const (
	Valid Verdict = iota
	Invalid
	Unspec
)

func (v Verdict) String() string { return [...]string{"valid", "invalid", "unspecified"}[v] }

// SafeDepth is the nesting depth up to which messages must be accepted.
const SafeDepth = 48

type vctx struct {
	c      *Corpus
	unspec bool
}

// Validate decides whether b begins with a well-formed message for struct s,
// and if so how many bytes it occupies.
func Validate(c *Corpus, s *StructDef, b []byte) (Verdict, int) {
	x := &vctx{c: c}
	n, ok := x.vstruct(s, b, 1)
	if !ok {
		return Invalid, 0
	}
	if x.unspec {
		return Unspec, n
	}
	return Valid, n
}

// hard recursion cap of the validator itself (far above anything a verdict is given for)
const vMaxDepth = 3000

func (x *vctx) vstruct(s *StructDef, b []byte, depth int) (int, bool) {
	if depth > SafeDepth {
		x.unspec = true
	}
	if depth > vMaxDepth {
		return 0, false
	}
	var seen map[uint16]bool
	i := 0
	for {
		if i >= len(b) {
			return 0, false
		}
		ft := b[i]
		i++
		if ft == WStop {
			break
		}
		if len(b)-i < 2 {
			return 0, false
		}
		id := binary.BigEndian.Uint16(b[i:])
		i += 2
		f := s.FieldByID(id)
		if f == nil || f.T.Wire() != ft {
			n, ok := x.skip(b[i:], ft)
			if !ok {
				return 0, false
			}
			i += n
			continue
		}
		n, ok := x.vtype(f.T, b[i:], depth+1)
		if !ok {
			return 0, false
		}
		i += n
		if f.Req == Required {
			if seen == nil {
				seen = map[uint16]bool{}
			}
			seen[id] = true
		}
	}
	for _, f := range s.Fields {
		if f.Req == Required && !seen[f.ID] {
			return 0, false
		}
	}
	return i, true
}

func (x *vctx) vtype(t *T, b []byte, depth int) (int, bool) {
	if depth > SafeDepth {
		x.unspec = true
	}
	if depth > vMaxDepth {
		return 0, false
	}
	switch t.K {
	case Bool:
		if len(b) < 1 {
			return 0, false
		}
		if b[0] > 1 {
			x.unspec = true
		}
		return 1, true
	case I8:
		return 1, len(b) >= 1
	case I16:
		return 2, len(b) >= 2
	case I32, Enum:
		return 4, len(b) >= 4
	case I64, Double:
		return 8, len(b) >= 8
	case String, Binary:
		if len(b) < 4 {
			return 0, false
		}
		n := int(int32(binary.BigEndian.Uint32(b)))
		if n < 0 || n > len(b)-4 {
			return 0, false
		}
		return 4 + n, true
	case Struct:
		return x.vstruct(x.c.Get(t.S), b, depth)
	case List, Set:
		if len(b) < 5 {
			return 0, false
		}
		et := b[0]
		n := int(int32(binary.BigEndian.Uint32(b[1:])))
		if n < 0 {
			return 0, false
		}
		if et != t.Elem.Wire() {
			return 0, false // "mismatching element type codes are reported as errors": also for an empty container
		}
		i := 5
		for j := 0; j < n; j++ {
			k, ok := x.vtype(t.Elem, b[i:], depth+1)
			if !ok {
				return 0, false
			}
			i += k
		}
		return i, true
	case Map:
		if len(b) < 6 {
			return 0, false
		}
		kt, vt := b[0], b[1]
		n := int(int32(binary.BigEndian.Uint32(b[2:])))
		if n < 0 {
			return 0, false
		}
		if kt != t.Key.Wire() || vt != t.Elem.Wire() {
			return 0, false
		}
		i := 6
		for j := 0; j < n; j++ {
			k, ok := x.vtype(t.Key, b[i:], depth+1)
			if !ok {
				return 0, false
			}
			i += k
			k, ok = x.vtype(t.Elem, b[i:], depth+1)
			if !ok {
				return 0, false
			}
			i += k
		}
		return i, true
	}
	return 0, false
}

// skip validates a value that the reader does not know (unknown id or
// mismatching wire type): any well-formed value of wire type ft.
func (x *vctx) skip(b []byte, ft byte) (int, bool) {
	w, n, err := Parse(b, ft, SafeDepth)
	if err == ErrDeep {
		w, n, err = Parse(b, ft, vMaxDepth)
		x.unspec = true
	}
	if err != nil {
		return 0, false
	}
	if hasEmptyOddContainer(w) {
		x.unspec = true
	}
	return n, true
}

// hasEmptyOddContainer finds empty containers whose element type codes are not
// protocol type codes: skippers disagree on whether to look at them.
func hasEmptyOddContainer(w *W) bool {
	switch w.T {
	case WList, WSet:
		if len(w.L) == 0 && !ValidCode(w.VT) {
			return true
		}
	case WMap:
		if len(w.L) == 0 && (!ValidCode(w.KT) || !ValidCode(w.VT)) {
			return true
		}
	}
	for _, e := range w.L {
		if hasEmptyOddContainer(e) {
			return true
		}
	}
	for _, f := range w.F {
		if hasEmptyOddContainer(f.V) {
			return true
		}
	}
	return false
}
