package model

import (
	"math"
	"strconv"
)

var edgeInts = []int64{0, 1, -1, 2, 7, 127, -128, 255, 256, 32767, -32768, 65535, 1<<31 - 1, -(1 << 31), 1 << 32, 1<<63 - 1, -(1 << 63)}

var edgeDoubles = []uint64{
	0, 1 << 63, // +0, -0
	math.Float64bits(1), math.Float64bits(-1.5), math.Float64bits(math.Inf(1)), math.Float64bits(math.Inf(-1)),
	0x7ff8000000000001, 0xfff8000000000123, 0x7ff0000000000001, // NaNs with payloads, signalling NaN
	math.Float64bits(math.MaxFloat64), math.Float64bits(math.SmallestNonzeroFloat64),
}

var strLens = []int{0, 1, 2, 3, 4, 5, 7, 8, 9, 15, 16, 17, 31, 33, 63, 64, 65, 100, 127, 128, 129, 200, 255, 256, 257, 300, 511, 512, 1000,
	2040, 2047, 2048, 2049, 2100, 4095, 4096, 4097, 9000}

// container sizes: bucket boundaries of the runtime's maps (8/9, 13/14, 26/27, 52/53, 104/105: the sizes at which an
// insert-built map starts growing) and a few large ones
var contLens = []int{0, 0, 1, 1, 2, 2, 3, 4, 7, 8, 9, 10, 13, 14, 16, 17, 27, 29, 33, 53, 55, 100, 105, 107, 130, 211, 223}

// VOpt steers value generation.
type VOpt struct {
	Budget    int  // rough byte budget of the whole message
	MaxDepth  int  // struct nesting depth
	Foreign   bool // foreign writer: arbitrary field order, unknown fields, retyped fields, duplicates
	NoNaNKeys bool
	// OmitRequired lists (struct name, field id) pairs to leave out; used by C09.
	Present float64 // probability that a non-required field is written (0 => 0.7)
	// OddBools: a foreign writer that sends bytes other than 0/1 for true (the decoder keeps the byte as it is)
	OddBools bool
	// Deep > 0: a chain of nested structs that many levels deep (definitions that contain themselves only)
	Deep int
}

type vgen struct {
	r   *Rng
	c   *Corpus
	o   VOpt
	rem int
	// scale: values of the largest budgets are sometimes big in one dimension, far beyond what the others have -
	// one container of 1025..2100 structs (big), or one chain of nested structs 70..1500 levels deep (deep; only
	// definitions that contain themselves can get there). Counts and depths are sizes of inputs like any other;
	// bounds and batch sizes in the code under test (1024 is a favourite) lie in between.
	big  bool
	deep int
	// chainFrom: the level below which a deep value is a chain (3; 0 for the thin chains of VOpt.Deep)
	chainFrom int
}

func (g *gen) genScalarW(t *T, maxStr int) *W {
	v := &vgen{r: g.r, rem: 1 << 20}
	return v.scalar(t, maxStr)
}

func (v *vgen) scalar(t *T, maxStr int) *W {
	r := v.r
	w := NewW(t.Wire())
	switch t.K {
	case Bool:
		w.I = int64(r.Intn(2))
		if v.o.OddBools && r.Chance(1, 2) {
			w.I = int64(2 + r.Intn(254))
		}
	case I8:
		w.I = int64(int8(v.pickInt()))
	case I16:
		w.I = int64(int16(v.pickInt()))
	case I32, Enum:
		w.I = int64(int32(v.pickInt()))
	case I64:
		w.I = v.pickInt()
	case Double:
		if r.Chance(1, 2) {
			w.I = int64(edgeDoubles[r.Intn(len(edgeDoubles))])
		} else {
			w.I = int64(math.Float64bits(float64(int64(r.Next()%2000)-1000) / 8))
		}
	case String, Binary:
		if maxStr >= 8 && v.rem >= 16 && r.Chance(1, 7) {
			// a family of near-identical short strings (the same in all but one bit or byte, of word-sized lengths):
			// the same few strings turn up in many messages of a process, and anything that identifies a string by
			// a digest, a prefix or a packed word confuses its members
			n := []int{8, 8, 8, 4, 7, 9, 16}[r.Intn(7)]
			w.B = []byte("tenant-0tenant-0"[:n])
			w.B[n-1] = "0819aiAI@H"[r.Intn(10)]
			if r.Chance(1, 4) {
				w.B[0] = "tu"[r.Intn(2)]
			}
			v.rem -= n
			return w
		}
		n := strLens[r.Intn(len(strLens))]
		if r.Chance(2, 3) {
			n = r.Intn(24)
		}
		if n > maxStr {
			n = r.Intn(maxStr + 1)
		}
		if n > v.rem {
			n = 0
		}
		v.rem -= n
		w.B = make([]byte, n)
		fill := byte('a' + r.Intn(26))
		for i := range w.B {
			w.B[i] = fill + byte(i%7)
		}
		if n > 0 && r.Chance(1, 8) {
			w.B[r.Intn(n)] = byte(r.Next())
		}
	}
	return w
}

func (v *vgen) pickInt() int64 {
	if v.r.Chance(1, 2) {
		return edgeInts[v.r.Intn(len(edgeInts))]
	}
	return int64(v.r.Next())
}

// GenValue draws a wire tree that is a well-formed message for struct s.
func GenValue(c *Corpus, s *StructDef, seed uint64, o VOpt) *W {
	if o.Budget == 0 {
		o.Budget = 600
	}
	if o.MaxDepth == 0 {
		o.MaxDepth = 4
	}
	v := &vgen{r: NewRng(Mix(seed, 0x7a1)), c: c, o: o, rem: o.Budget, chainFrom: 3}
	if s.Cluster >= 0 && o.Deep > 0 {
		v.deep, v.o.MaxDepth = o.Deep, o.Deep
		v.chainFrom = 0
		if o.Present == 0 {
			// a thin chain: the depth is the point, and two thousand levels of a definition with a dozen fields
			// would cost the schedule worlds a minute
			o.Present, v.o.Present = 0.1, 0.1
		}
	} else if s.Cluster >= 0 && o.Budget >= 1500 && NewRng(Mix(seed, 0x5ca1e)).Chance(1, 5) {
		// definitions that contain themselves: a deep chain one time in five
		v.deep = []int{70, 520, 1030, 1500}[NewRng(Mix(seed, 0xdee9)).Intn(4)]
		v.o.MaxDepth = v.deep
	} else if o.Budget >= 70000 {
		switch NewRng(Mix(seed, 0x5ca1e)).Intn(4) {
		case 0:
			v.big = true
		case 1:
			v.deep = []int{70, 520, 1030, 1500}[NewRng(Mix(seed, 0xdee9)).Intn(4)]
			v.o.MaxDepth = v.deep
		}
	}
	if v.deep == 0 && len(s.Name) > 5 && s.Name[:5] == "Chain" && NewRng(Mix(seed, 0xc4a1)).Chance(2, 3) {
		v.deep, v.o.MaxDepth = 45, 45 // the chain of definitions is populated to its end
	}
	if o.Present == 0 {
		// sparse values leave the size budget to the few fields that are present (a definition with fourteen
		// containers otherwise never has a long one beyond its first few fields), dense ones exercise every field
		v.o.Present = []float64{0.15, 0.4, 0.7, 0.7, 0.95}[NewRng(Mix(seed, 0x9e5)).Intn(5)]
	}
	return v.structW(s, 1)
}

func (v *vgen) structW(s *StructDef, depth int) *W {
	r := v.r
	w := NewW(WStruct)
	followed := false
	var link *Field // deep values: the field that leads back into the definition's own cluster, if there is one
	if v.deep > 0 && depth > v.chainFrom && s.Cluster >= 0 {
		for _, f := range s.Fields {
			if n := structNameIn(f.T); n != "" && f.Req != Required {
				if d := v.c.Get(n); d != nil && d.Cluster == s.Cluster {
					link = f
				}
			}
		}
	}
	for _, f := range s.Fields {
		present := f.Req == Required || float64(r.Intn(1000)) < v.o.Present*1000
		if depth >= v.o.MaxDepth && f.Req != Required && involvesStruct(f.T) {
			present = false
		}
		if v.deep > 0 && depth > v.chainFrom && f.Req != Required && involvesStruct(f.T) {
			// a deep value is a chain, not a tree: below the first levels one nested field per struct
			present = !followed && depth < v.o.MaxDepth && (link == nil || f == link)
			followed = followed || present
		}
		if v.rem <= 0 && f.Req != Required && !(v.deep > 0 && depth > v.chainFrom && present && involvesStruct(f.T)) {
			present = false // (the one nested field a deep chain follows is not cut by the size budget)
		}
		if !present {
			continue
		}
		v.rem -= 3
		if f.Def != nil && r.Chance(1, 2) {
			w.F = append(w.F, WF{f.ID, v.nearDefault(f)})
			continue
		}
		w.F = append(w.F, WF{f.ID, v.value(f.T, depth)})
	}
	if v.o.Foreign {
		v.foreign(s, w, depth)
	}
	return w
}

// nearDefault draws a value that is the declared default or something easily confused with it: the same bits, the
// other zero, another NaN payload, the default +/- 1, the empty value.
func (v *vgen) nearDefault(f *Field) *W {
	w := f.Def.Clone()
	w.Count = -1
	switch f.T.K {
	case Double:
		bits := uint64(w.I)
		fl := math.Float64frombits(bits)
		switch v.r.Intn(4) {
		case 0:
			if fl == 0 {
				w.I = int64(bits ^ 1<<63) // the other zero: equal as floats, different bits
			}
		case 1:
			if fl != fl {
				w.I = int64(bits ^ 0x5) // another NaN: different bits, and unequal to itself anyway
			}
		}
	case I8, I16, I32, I64, Enum:
		if v.r.Chance(1, 4) {
			w.I += int64(v.r.Intn(3)) - 1
			switch f.T.K {
			case I8:
				w.I = int64(int8(w.I))
			case I16:
				w.I = int64(int16(w.I))
			case I32, Enum:
				w.I = int64(int32(w.I))
			}
		}
	case String, Binary:
		if v.r.Chance(1, 4) {
			w.B = nil
		}
	}
	return w
}

// structNameIn: the struct a type leads to (through containers; map values before keys), or "".
func structNameIn(t *T) string {
	switch t.K {
	case Struct:
		return t.S
	case List, Set:
		return structNameIn(t.Elem)
	case Map:
		if n := structNameIn(t.Elem); n != "" {
			return n
		}
		return structNameIn(t.Key)
	}
	return ""
}

// ChainLink reports whether values of s can be chains through s's own cluster: s has a non-required field that leads
// to a definition of the cluster (the field a deep value follows).
func ChainLink(c *Corpus, s *StructDef) bool {
	if s.Cluster < 0 {
		return false
	}
	for _, f := range s.Fields {
		if n := structNameIn(f.T); n != "" && f.Req != Required {
			if d := c.Get(n); d != nil && d.Cluster == s.Cluster {
				return true
			}
		}
	}
	return false
}

func involvesStruct(t *T) bool {
	switch t.K {
	case Struct:
		return true
	case List, Set:
		return involvesStruct(t.Elem)
	case Map:
		return involvesStruct(t.Key) || involvesStruct(t.Elem)
	}
	return false
}

func (v *vgen) value(t *T, depth int) *W {
	r := v.r
	switch t.K {
	case Struct:
		return v.structW(v.c.Get(t.S), depth+1)
	case List, Set:
		w := NewW(t.Wire())
		w.VT = t.Elem.Wire()
		n := v.contLen(t.Elem, depth)
		for i := 0; i < n; i++ {
			w.L = append(w.L, v.value(t.Elem, depth))
		}
		return w
	case Map:
		w := NewW(WMap)
		w.KT, w.VT = t.Key.Wire(), t.Elem.Wire()
		n := v.contLen(t.Elem, depth)
		if t.Key.K == Bool && n > 2 {
			n = 2
		}
		seen := map[string]bool{}
		for i := 0; i < n; i++ {
			var k *W
			for try := 0; try < 8; try++ {
				if t.Key.K == Struct {
					k = v.structW(v.c.Get(t.Key.S), depth+1)
				} else {
					k = v.scalar(t.Key, 40)
				}
				if t.Key.K == Double {
					f := math.Float64frombits(uint64(k.I))
					if f != f {
						k.I = int64(math.Float64bits(float64(i) + 0.5))
					}
					if f == 0 {
						k.I = 0 // +0 and -0 are the same Go map key
					}
				}
				if !seen[string(k.Append(nil))] {
					break
				}
				k = nil
				if try >= 2 && n > 300 && t.Key.K != Struct && t.Key.K != Bool && t.Key.K != I8 {
					// a long map: do not let the few favourite key values end it early
					k = NewW(t.Key.Wire())
					switch t.Key.K {
					case String:
						k.B = []byte("key-" + strconv.Itoa(i))
					case Double:
						k.I = int64(math.Float64bits(float64(i) + 0.25))
					case I16:
						k.I = int64(int16(i))
					default:
						k.I = int64(i)*7919 + 13
					}
					if !seen[string(k.Append(nil))] {
						break
					}
					k = nil
				}
			}
			if k == nil {
				break
			}
			seen[string(k.Append(nil))] = true
			w.L = append(w.L, k, v.value(t.Elem, depth))
		}
		return w
	}
	_ = r
	return v.scalar(t, 1<<20)
}

func (v *vgen) contLen(elem *T, depth int) int {
	if v.deep > 0 && depth > v.chainFrom {
		if involvesStruct(elem) {
			return 1
		}
		return v.r.Intn(3)
	}
	if v.big && depth <= 2 && involvesStruct(elem) && v.rem > 40000 {
		v.big = false // one such container per value
		n := 1025 + v.r.Intn(1076)
		v.rem -= 30000
		return n
	}
	n := contLens[v.r.Intn(len(contLens))]
	if v.rem > 40000 && elem.Scalar() && elem.K != Bool && elem.K != I8 && v.r.Chance(1, 3) {
		n = []int{3000, 6000, 12000}[v.r.Intn(3)] // long scalar containers: decode time must stay proportional
	}
	per := 8
	if involvesStruct(elem) || elem.K == List || elem.K == Map || elem.K == Set {
		per = 40
		if n > 9 {
			n = 9
		}
		if depth >= v.o.MaxDepth {
			n = 0
		}
	}
	if n*per > v.rem {
		n = v.rem / per
		if n < 0 {
			n = 0
		}
	}
	v.rem -= n * per / 2
	return n
}

// foreign applies what a foreign / older / newer writer may legitimately do to a struct on the wire.
func (v *vgen) foreign(s *StructDef, w *W, depth int) {
	r := v.r
	// unknown fields of every wire type
	for k := []int{0, 1, 1, 2, 2, 3, 5}[r.Intn(7)]; k > 0; k-- {
		id := uint16(r.Next())
		if r.Chance(1, 2) {
			id = uint16(r.Intn(40))
		}
		if s.FieldByID(id) != nil {
			continue
		}
		w.F = append(w.F, WF{id, v.anyValue(2)})
	}
	// a known id with a different wire type (retyped field), only for non-required fields
	if len(s.Fields) > 0 && r.Chance(1, 4) {
		f := s.Fields[r.Intn(len(s.Fields))]
		if f.Req != Required {
			x := v.anyValue(2)
			if x.T != f.T.Wire() {
				w.F = append(w.F, WF{f.ID, x})
			}
		}
	}
	// duplicate of a known scalar field (last one wins)
	if len(w.F) > 0 && r.Chance(1, 8) {
		f := w.F[r.Intn(len(w.F))]
		if sf := s.FieldByID(f.ID); sf != nil && sf.T.Wire() == f.V.T && (sf.T.Scalar() || sf.T.K == String) {
			w.F = append(w.F, WF{f.ID, v.scalar(sf.T, 40)})
		}
	}
	// arbitrary field order
	if r.Chance(2, 3) {
		for i := len(w.F) - 1; i > 0; i-- {
			j := r.Intn(i + 1)
			w.F[i], w.F[j] = w.F[j], w.F[i]
		}
	}
}

var anyCodes = []byte{WBool, WI8, WI16, WI32, WI64, WDouble, WString, WStruct, WMap, WSet, WList}

// anyValue draws a schema-free well-formed value (for unknown fields).
func (v *vgen) anyValue(depth int) *W {
	r := v.r
	c := anyCodes[r.Intn(len(anyCodes))]
	if depth <= 0 && c >= WStruct {
		c = WI32
	}
	w := NewW(c)
	switch c {
	case WBool:
		w.I = int64(r.Intn(2))
	case WI8, WI16, WI32, WI64, WDouble:
		w.I = v.pickInt()
		switch c {
		case WI8:
			w.I = int64(int8(w.I))
		case WI16:
			w.I = int64(int16(w.I))
		case WI32:
			w.I = int64(int32(w.I))
		}
	case WString:
		w.B = make([]byte, r.Intn(20))
		for i := range w.B {
			w.B[i] = byte('A' + i)
		}
	case WStruct:
		for k := r.Intn(3); k > 0; k-- {
			w.F = append(w.F, WF{uint16(r.Intn(100)), v.anyValue(depth - 1)})
		}
	case WList, WSet:
		e := v.anyValue(depth - 1)
		w.VT = e.T
		for k := r.Intn(4); k > 0; k-- {
			x := v.anyValue(depth - 1)
			if x.T == e.T && (e.T < WStruct) {
				w.L = append(w.L, x)
			} else {
				w.L = append(w.L, e.Clone())
			}
		}
	case WMap:
		k0 := v.anyScalar()
		e := v.anyValue(depth - 1)
		w.KT, w.VT = k0.T, e.T
		for k := r.Intn(3); k > 0; k-- {
			w.L = append(w.L, k0.Clone(), e.Clone())
		}
	}
	return w
}

func (v *vgen) anyScalar() *W {
	w := NewW([]byte{WI8, WI16, WI32, WI64, WString}[v.r.Intn(5)])
	if w.T == WString {
		w.B = []byte("k")
	} else {
		w.I = int64(int8(v.r.Next()))
	}
	return w
}
