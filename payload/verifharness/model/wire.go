package model

import (
	"bytes"
	"encoding/binary"
	"errors"
	"fmt"
	"math"
	"sort"
)

// W is a wire-level value tree: what is actually on the wire, independent of any schema.
type W struct {
	T  byte   // wire type code
	I  int64  // bool (0/1 or raw byte), i8, i16, i32, i64; double bits
	B  []byte // string / binary bytes
	KT byte   // map key type code
	VT byte   // map value / list / set element type code
	L  []*W   // list/set elements; map entries as k0,v0,k1,v1,...
	F  []WF   // struct fields in wire order
	// Count overrides the element count written in a container header (fault injection); -1 = len.
	Count int64
}

// WF is one struct field on the wire.
type WF struct {
	ID uint16
	V  *W
}

func NewW(t byte) *W { return &W{T: t, Count: -1} }

// Pos is a tracked position inside a serialised message (for structured fault injection).
type Pos struct {
	Off  int
	Kind string // ftype | fid | strlen | count | ktype | vtype | etype | stop
	Len  int    // byte width of the position
	Aux  int    // strlen/count: the true value; depth for others
}

// Tracker collects positions while serialising.
type Tracker struct{ P []Pos }

func (t *Tracker) add(off int, kind string, n, aux int) {
	if t != nil {
		t.P = append(t.P, Pos{off, kind, n, aux})
	}
}

// Append serialises w (value only, no field header).
func (w *W) Append(b []byte) []byte { return w.AppendT(b, nil) }

// AppendT serialises w and records the offsets of type codes, ids, lengths and counts.
func (w *W) AppendT(b []byte, tr *Tracker) []byte {
	switch w.T {
	case WBool, WI8:
		return append(b, byte(w.I))
	case WI16:
		return binary.BigEndian.AppendUint16(b, uint16(w.I))
	case WI32:
		return binary.BigEndian.AppendUint32(b, uint32(w.I))
	case WI64, WDouble:
		return binary.BigEndian.AppendUint64(b, uint64(w.I))
	case WString:
		n := int64(len(w.B))
		if w.Count >= 0 {
			n = w.Count
		}
		tr.add(len(b), "strlen", 4, len(w.B))
		b = binary.BigEndian.AppendUint32(b, uint32(n))
		return append(b, w.B...)
	case WStruct:
		for _, f := range w.F {
			tr.add(len(b), "ftype", 1, 0)
			b = append(b, f.V.T)
			tr.add(len(b), "fid", 2, 0)
			b = binary.BigEndian.AppendUint16(b, f.ID)
			b = f.V.AppendT(b, tr)
		}
		tr.add(len(b), "stop", 1, 0)
		return append(b, WStop)
	case WList, WSet:
		n := int64(len(w.L))
		if w.Count >= 0 {
			n = w.Count
		}
		tr.add(len(b), "etype", 1, 0)
		b = append(b, w.VT)
		tr.add(len(b), "count", 4, len(w.L))
		b = binary.BigEndian.AppendUint32(b, uint32(n))
		for _, e := range w.L {
			b = e.AppendT(b, tr)
		}
		return b
	case WMap:
		n := int64(len(w.L) / 2)
		if w.Count >= 0 {
			n = w.Count
		}
		tr.add(len(b), "ktype", 1, 0)
		tr.add(len(b)+1, "vtype", 1, 0)
		b = append(b, w.KT, w.VT)
		tr.add(len(b), "count", 4, len(w.L)/2)
		b = binary.BigEndian.AppendUint32(b, uint32(n))
		for _, e := range w.L {
			b = e.AppendT(b, tr)
		}
		return b
	}
	panic(fmt.Sprintf("W.Append: bad wire type %d", w.T))
}

// Bytes serialises a struct-typed W as a top-level message.
func (w *W) Bytes() []byte { return w.Append(nil) }

var (
	ErrShort = errors.New("short")
	ErrBad   = errors.New("malformed")
	ErrDeep  = errors.New("too deep")
)

// ValidCode reports whether c is a type code of the binary protocol.
func ValidCode(c byte) bool {
	switch c {
	case WBool, WI8, WDouble, WI16, WI32, WI64, WString, WStruct, WMap, WSet, WList:
		return true
	}
	return false
}

// Parse is the schema-less walker: it reads one value of wire type t.
func Parse(b []byte, t byte, depth int) (*W, int, error) {
	if depth <= 0 {
		return nil, 0, ErrDeep
	}
	w := NewW(t)
	switch t {
	case WBool, WI8:
		if len(b) < 1 {
			return nil, 0, ErrShort
		}
		w.I = int64(int8(b[0]))
		if t == WBool {
			w.I = int64(b[0])
		}
		return w, 1, nil
	case WI16:
		if len(b) < 2 {
			return nil, 0, ErrShort
		}
		w.I = int64(int16(binary.BigEndian.Uint16(b)))
		return w, 2, nil
	case WI32:
		if len(b) < 4 {
			return nil, 0, ErrShort
		}
		w.I = int64(int32(binary.BigEndian.Uint32(b)))
		return w, 4, nil
	case WI64, WDouble:
		if len(b) < 8 {
			return nil, 0, ErrShort
		}
		w.I = int64(binary.BigEndian.Uint64(b))
		return w, 8, nil
	case WString:
		if len(b) < 4 {
			return nil, 0, ErrShort
		}
		n := int(int32(binary.BigEndian.Uint32(b)))
		if n < 0 {
			return nil, 0, ErrBad
		}
		if n > len(b)-4 {
			return nil, 0, ErrShort
		}
		w.B = b[4 : 4+n : 4+n]
		return w, 4 + n, nil
	case WStruct:
		i := 0
		for {
			if i >= len(b) {
				return nil, 0, ErrShort
			}
			ft := b[i]
			i++
			if ft == WStop {
				return w, i, nil
			}
			if len(b)-i < 2 {
				return nil, 0, ErrShort
			}
			id := binary.BigEndian.Uint16(b[i:])
			i += 2
			v, n, err := Parse(b[i:], ft, depth-1)
			if err != nil {
				return nil, 0, err
			}
			i += n
			w.F = append(w.F, WF{id, v})
		}
	case WList, WSet:
		if len(b) < 5 {
			return nil, 0, ErrShort
		}
		w.VT = b[0]
		n := int(int32(binary.BigEndian.Uint32(b[1:])))
		if n < 0 {
			return nil, 0, ErrBad
		}
		i := 5
		for j := 0; j < n; j++ {
			v, k, err := Parse(b[i:], w.VT, depth-1)
			if err != nil {
				return nil, 0, err
			}
			i += k
			w.L = append(w.L, v)
		}
		return w, i, nil
	case WMap:
		if len(b) < 6 {
			return nil, 0, ErrShort
		}
		w.KT, w.VT = b[0], b[1]
		n := int(int32(binary.BigEndian.Uint32(b[2:])))
		if n < 0 {
			return nil, 0, ErrBad
		}
		i := 6
		for j := 0; j < n; j++ {
			k, kn, err := Parse(b[i:], w.KT, depth-1)
			if err != nil {
				return nil, 0, err
			}
			i += kn
			v, vn, err := Parse(b[i:], w.VT, depth-1)
			if err != nil {
				return nil, 0, err
			}
			i += vn
			w.L = append(w.L, k, v)
		}
		return w, i, nil
	}
	return nil, 0, ErrBad
}

// Canon reorders map entries by their serialised key (then value) bytes, recursively,
// so that two encodings of the same value that differ only in map entry order
// serialise identically.
func (w *W) Canon() *W {
	switch w.T {
	case WStruct:
		for _, f := range w.F {
			f.V.Canon()
		}
	case WList, WSet:
		for _, e := range w.L {
			e.Canon()
		}
	case WMap:
		type kv struct {
			k, v *W
			kb   []byte
		}
		var es []kv
		for i := 0; i+1 < len(w.L); i += 2 {
			w.L[i].Canon()
			w.L[i+1].Canon()
			es = append(es, kv{w.L[i], w.L[i+1], append(w.L[i].Append(nil), w.L[i+1].Append(nil)...)})
		}
		sort.SliceStable(es, func(a, b int) bool { return bytes.Compare(es[a].kb, es[b].kb) < 0 })
		for i, e := range es {
			w.L[2*i], w.L[2*i+1] = e.k, e.v
		}
	}
	return w
}

// CanonBytes parses a top-level struct message and returns its canonical
// serialisation and the number of bytes parsed; ok=false if it does not parse.
func CanonBytes(b []byte) (canon []byte, n int, ok bool) {
	w, n, err := Parse(b, WStruct, 1<<15) // (deeper than any value the harness builds: 2100 structs, each through up to three containers)
	if err != nil {
		return nil, 0, false
	}
	return w.Canon().Bytes(), n, true
}

// Clone deep-copies w.
func (w *W) Clone() *W {
	c := *w
	c.B = append([]byte(nil), w.B...)
	c.L = make([]*W, len(w.L))
	for i, e := range w.L {
		c.L[i] = e.Clone()
	}
	c.F = make([]WF, len(w.F))
	for i, f := range w.F {
		c.F[i] = WF{f.ID, f.V.Clone()}
	}
	return &c
}

// Depth returns the nesting depth of w (a scalar is 1).
func (w *W) Depth() int {
	d := 0
	for _, e := range w.L {
		if x := e.Depth(); x > d {
			d = x
		}
	}
	for _, f := range w.F {
		if x := f.V.Depth(); x > d {
			d = x
		}
	}
	return d + 1
}

// String renders a short human-readable form (for reports and evidence samples).
func (w *W) String() string {
	var sb bytes.Buffer
	w.render(&sb, 0)
	s := sb.String()
	if len(s) > 400 {
		s = s[:400] + "..."
	}
	return s
}

func (w *W) render(sb *bytes.Buffer, depth int) {
	if sb.Len() > 400 {
		return
	}
	switch w.T {
	case WBool, WI8, WI16, WI32, WI64:
		fmt.Fprintf(sb, "%d", w.I)
	case WDouble:
		fmt.Fprintf(sb, "%v", math.Float64frombits(uint64(w.I)))
	case WString:
		if len(w.B) > 16 {
			fmt.Fprintf(sb, "str[%d]", len(w.B))
		} else {
			fmt.Fprintf(sb, "%q", w.B)
		}
	case WStruct:
		sb.WriteByte('{')
		for i, f := range w.F {
			if i > 0 {
				sb.WriteByte(' ')
			}
			fmt.Fprintf(sb, "%d:", f.ID)
			f.V.render(sb, depth+1)
		}
		sb.WriteByte('}')
	case WList, WSet:
		sb.WriteByte('[')
		for i, e := range w.L {
			if i > 0 {
				sb.WriteByte(' ')
			}
			if i >= 4 {
				fmt.Fprintf(sb, "..%d", len(w.L))
				break
			}
			e.render(sb, depth+1)
		}
		sb.WriteByte(']')
	case WMap:
		sb.WriteString("map[")
		for i := 0; i+1 < len(w.L); i += 2 {
			if i > 0 {
				sb.WriteByte(' ')
			}
			if i >= 8 {
				fmt.Fprintf(sb, "..%d", len(w.L)/2)
				break
			}
			w.L[i].render(sb, depth+1)
			sb.WriteByte(':')
			w.L[i+1].render(sb, depth+1)
		}
		sb.WriteByte(']')
	}
}
