// Command gen writes the Go source of the type corpus for a seed.
package main

import (
	"flag"
	"fmt"
	"os"

	"github.com/cloudwego/frugal/verifharness/model"
)

func main() {
	seed := flag.Uint64("seed", 1, "corpus seed")
	out := flag.String("o", "", "output file")
	flag.Parse()
	c := model.Generate(*seed)
	src := model.EmitGo(c)
	if *out == "" {
		fmt.Print(src)
		return
	}
	if err := os.WriteFile(*out, []byte(src), 0o644); err != nil {
		fmt.Fprintln(os.Stderr, err)
		os.Exit(2)
	}
}
