// Command sim is the simulated world: one process executes one run
// specification against the instrumented frugal and writes a journal (JSON
// lines) to stdout.
package main

import (
	"encoding/json"
	"flag"
	"fmt"
	"os"
	"runtime/pprof"
	"syscall"

	"github.com/cloudwego/frugal/internal/verifsim"
	"github.com/cloudwego/frugal/verifharness/model"
	"github.com/cloudwego/frugal/verifharness/world"
)

func main() {
	prof := flag.String("prof", "", "profile (property id)")
	corpusSeed := flag.Uint64("corpus", 1, "corpus seed (must match the compiled corpus)")
	seed := flag.Uint64("seed", 1, "VERIF_SEED")
	run := flag.Int("run", 0, "run index")
	specFile := flag.String("spec", "", "explicit run specification (JSON file, - for stdin)")
	single := flag.Int64("single", -1, "baseline mode: execute exactly this bank operation, first and alone")
	describe := flag.Int64("describe", -1, "print the bank operation with this id and exit")
	plan := flag.Bool("plan", false, "print the derived run specification and exit")
	scan := flag.Int("scan", 0, "diagnostics: print depth and largest container of the values of the first N bank operations and of the focus operations")
	bankLimit := flag.Uint64("bank", 0, "use only the first N operations of the bank (0: all)")
	limitAS := flag.Uint64("as-limit-mb", 0, "address space limit in MiB (0: none)")
	cpuprof := flag.String("cpuprofile", "", "write a CPU profile (diagnostics only)")
	flag.Parse()
	if *cpuprof != "" {
		f, _ := os.Create(*cpuprof)
		pprof.StartCPUProfile(f)
		defer pprof.StopCPUProfile()
	}

	if *limitAS > 0 && !verifsim.RaceBuild {
		lim := syscall.Rlimit{Cur: *limitAS << 20, Max: *limitAS << 20}
		_ = syscall.Setrlimit(syscall.RLIMIT_AS, &lim)
	}
	c := model.Generate(*corpusSeed)
	var spec *world.RunSpec
	switch {
	case *scan > 0:
		b := world.NewBank(*prof, c)
		deep, big := map[int]int{}, 0
		look := func(id uint64) {
			op := b.Op(id)
			sd := c.Get(op.Type)
			if sd == nil || sd.Rejected() || sd.PanicInit || sd.HoldsPanic {
				return
			}
			w := model.GenValue(c, sd, op.VSeed, model.VOpt{Budget: op.Budget, Foreign: op.Foreign})
			d := w.Depth()
			switch {
			case d > 1024:
				deep[1024]++
			case d > 500:
				deep[500]++
			case d > 60:
				deep[60]++
			case d > 32:
				deep[32]++
			}
			if n := len(w.Bytes()); n > 40000 {
				big++
			}
		}
		for id := uint64(0); id < uint64(*scan); id++ {
			look(id)
		}
		nv := len(c.Valid())
		for t := 0; t < nv; t++ {
			for v := uint64(0); v < world.FocusVariants; v++ {
				look(world.FocusBase + uint64(t)*world.FocusVariants + v)
			}
		}
		fmt.Println("values deeper than 32/60/500/1024 levels:", deep[32], deep[60], deep[500], deep[1024], " messages over 40000 bytes:", big, " of", *scan, "+", nv*int(world.FocusVariants), "operations")
		return
	case *describe >= 0:
		op := world.NewBank(*prof, c).Op(uint64(*describe))
		b, _ := json.Marshal(op)
		fmt.Println(string(b))
		fmt.Println(world.Describe(c, &op))
		return
	case *specFile != "":
		var data []byte
		var err error
		if *specFile == "-" {
			data, err = readAll(os.Stdin)
		} else {
			data, err = os.ReadFile(*specFile)
		}
		if err != nil {
			verifsim.Fatalf("read spec: %v", err)
		}
		spec = &world.RunSpec{}
		if err := json.Unmarshal(data, spec); err != nil {
			verifsim.Fatalf("parse spec: %v", err)
		}
		if spec.Corpus != *corpusSeed {
			verifsim.Fatalf("spec is for corpus %d, this binary was built for corpus %d", spec.Corpus, *corpusSeed)
		}
	case *single >= 0:
		spec = &world.RunSpec{Prof: *prof, Corpus: *corpusSeed, Seed: model.Mix(*seed, uint64(*single)), Tasks: 1, Pool: "sim", Single: true,
			Hist: []world.Step{{Slot: 0, Task: 0, Op: uint64(*single)}}}
		spec.Sched.Strategy = "nonpreemptive"
	default:
		spec = world.Derive(*prof, c, *seed, *run, *bankLimit)
	}
	if *plan {
		b, _ := json.Marshal(spec)
		fmt.Println(string(b))
		return
	}
	world.NewRunner(spec, c).Run()
}

func readAll(f *os.File) ([]byte, error) {
	var out []byte
	buf := make([]byte, 1<<16)
	for {
		n, err := f.Read(buf)
		out = append(out, buf[:n]...)
		if err != nil {
			if err.Error() == "EOF" {
				return out, nil
			}
			return out, err
		}
	}
}
