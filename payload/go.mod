// Marker module: keeps this directory out of /verif's own package tree.
// Its contents are overlaid onto an instrumented scratch copy of /repo at check time
// (import paths below are those of the scratch copy, github.com/cloudwego/frugal/...).
module verifpayload

go 1.20
