//go:build race

package verifsim

import (
	"runtime"
	"unsafe"
)

const RaceBuild = true

//go:norace
func raceDisable() { runtime.RaceDisable() }

//go:norace
func raceEnable() { runtime.RaceEnable() }

// RaceAcquire / RaceReleaseMerge publish exactly the happens-before edge the
// real sync.Pool publishes per pooled object.
//
//go:norace
func RaceAcquire(p unsafe.Pointer) { runtime.RaceAcquire(p) }

//go:norace
func RaceReleaseMerge(p unsafe.Pointer) { runtime.RaceReleaseMerge(p) }
