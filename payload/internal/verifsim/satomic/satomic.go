// Package satomic stands in for sync/atomic in the instrumented copy of
// frugal. Operations are the real atomics (the race detector sees them) with a
// scheduling point before each one and after each store, so that the simulator
// can open the window between a publication and what follows it.
package satomic

import (
	"sync/atomic"
	"unsafe"

	"github.com/cloudwego/frugal/internal/verifsim"
)

type (
	Bool    = atomic.Bool
	Int32   = atomic.Int32
	Int64   = atomic.Int64
	Uint32  = atomic.Uint32
	Uint64  = atomic.Uint64
	Uintptr = atomic.Uintptr
)

// Pointer wraps atomic.Pointer[T].
type Pointer[T any] struct{ p atomic.Pointer[T] }

func (x *Pointer[T]) Load() *T {
	verifsim.SyncPoint()
	v := x.p.Load()
	if v == nil {
		verifsim.Probe(verifsim.ProbeAtomicLoadNil)
	}
	return v
}

func (x *Pointer[T]) Store(v *T) {
	verifsim.SyncPoint()
	x.p.Store(v)
	verifsim.AfterStore()
}

func (x *Pointer[T]) Swap(v *T) *T {
	verifsim.SyncPoint()
	o := x.p.Swap(v)
	verifsim.SyncPoint()
	return o
}

func (x *Pointer[T]) CompareAndSwap(old, new *T) bool {
	verifsim.SyncPoint()
	ok := x.p.CompareAndSwap(old, new)
	verifsim.SyncPoint()
	return ok
}

// Value wraps atomic.Value.
type Value struct{ v atomic.Value }

func (x *Value) Load() any {
	verifsim.SyncPoint()
	return x.v.Load()
}

func (x *Value) Store(v any) {
	verifsim.SyncPoint()
	x.v.Store(v)
	verifsim.SyncPoint()
}

func (x *Value) Swap(v any) any {
	verifsim.SyncPoint()
	o := x.v.Swap(v)
	verifsim.SyncPoint()
	return o
}

func (x *Value) CompareAndSwap(old, new any) bool {
	verifsim.SyncPoint()
	ok := x.v.CompareAndSwap(old, new)
	verifsim.SyncPoint()
	return ok
}

func pre()  { verifsim.SyncPoint() }
func post() { verifsim.AfterStore() }

func LoadInt32(a *int32) int32       { pre(); return atomic.LoadInt32(a) }
func LoadInt64(a *int64) int64       { pre(); return atomic.LoadInt64(a) }
func LoadUint32(a *uint32) uint32    { pre(); return atomic.LoadUint32(a) }
func LoadUint64(a *uint64) uint64    { pre(); return atomic.LoadUint64(a) }
func LoadUintptr(a *uintptr) uintptr { pre(); return atomic.LoadUintptr(a) }
func LoadPointer(a *unsafe.Pointer) unsafe.Pointer {
	pre()
	return atomic.LoadPointer(a)
}

func StoreInt32(a *int32, v int32)       { pre(); atomic.StoreInt32(a, v); post() }
func StoreInt64(a *int64, v int64)       { pre(); atomic.StoreInt64(a, v); post() }
func StoreUint32(a *uint32, v uint32)    { pre(); atomic.StoreUint32(a, v); post() }
func StoreUint64(a *uint64, v uint64)    { pre(); atomic.StoreUint64(a, v); post() }
func StoreUintptr(a *uintptr, v uintptr) { pre(); atomic.StoreUintptr(a, v); post() }
func StorePointer(a *unsafe.Pointer, v unsafe.Pointer) {
	pre()
	atomic.StorePointer(a, v)
	post()
}

func AddInt32(a *int32, d int32) int32         { pre(); r := atomic.AddInt32(a, d); post(); return r }
func AddInt64(a *int64, d int64) int64         { pre(); r := atomic.AddInt64(a, d); post(); return r }
func AddUint32(a *uint32, d uint32) uint32     { pre(); r := atomic.AddUint32(a, d); post(); return r }
func AddUint64(a *uint64, d uint64) uint64     { pre(); r := atomic.AddUint64(a, d); post(); return r }
func AddUintptr(a *uintptr, d uintptr) uintptr { pre(); r := atomic.AddUintptr(a, d); post(); return r }

func SwapInt32(a *int32, v int32) int32     { pre(); r := atomic.SwapInt32(a, v); post(); return r }
func SwapInt64(a *int64, v int64) int64     { pre(); r := atomic.SwapInt64(a, v); post(); return r }
func SwapUint32(a *uint32, v uint32) uint32 { pre(); r := atomic.SwapUint32(a, v); post(); return r }
func SwapUint64(a *uint64, v uint64) uint64 { pre(); r := atomic.SwapUint64(a, v); post(); return r }
func SwapUintptr(a *uintptr, v uintptr) uintptr {
	pre()
	r := atomic.SwapUintptr(a, v)
	post()
	return r
}
func SwapPointer(a *unsafe.Pointer, v unsafe.Pointer) unsafe.Pointer {
	pre()
	r := atomic.SwapPointer(a, v)
	post()
	return r
}

func CompareAndSwapInt32(a *int32, o, n int32) bool {
	pre()
	r := atomic.CompareAndSwapInt32(a, o, n)
	post()
	return r
}
func CompareAndSwapInt64(a *int64, o, n int64) bool {
	pre()
	r := atomic.CompareAndSwapInt64(a, o, n)
	post()
	return r
}
func CompareAndSwapUint32(a *uint32, o, n uint32) bool {
	pre()
	r := atomic.CompareAndSwapUint32(a, o, n)
	post()
	return r
}
func CompareAndSwapUint64(a *uint64, o, n uint64) bool {
	pre()
	r := atomic.CompareAndSwapUint64(a, o, n)
	post()
	return r
}
func CompareAndSwapUintptr(a *uintptr, o, n uintptr) bool {
	pre()
	r := atomic.CompareAndSwapUintptr(a, o, n)
	post()
	return r
}
func CompareAndSwapPointer(a *unsafe.Pointer, o, n unsafe.Pointer) bool {
	pre()
	r := atomic.CompareAndSwapPointer(a, o, n)
	post()
	return r
}
