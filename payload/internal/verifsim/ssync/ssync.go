// Package ssync stands in for package sync in the instrumented copy of frugal.
// Mutex, RWMutex, Once and Pool are scheduler-aware wrappers around the real
// primitives (so the race detector sees the real acquire/release edges);
// everything else is re-exported unchanged.
package ssync

import (
	"sync"
	"sync/atomic"
	"unsafe"

	"github.com/cloudwego/frugal/internal/verifsim"
)

type (
	Locker    = sync.Locker
	Map       = sync.Map
	WaitGroup = sync.WaitGroup
	Cond      = sync.Cond
)

func NewCond(l Locker) *Cond                                   { return sync.NewCond(l) }
func OnceFunc(f func()) func()                                 { return sync.OnceFunc(f) }
func OnceValue[T any](f func() T) func() T                     { return sync.OnceValue(f) }
func OnceValues[T1, T2 any](f func() (T1, T2)) func() (T1, T2) { return sync.OnceValues(f) }

// ---------------------------------------------------------------- Mutex

type Mutex struct{ mu sync.Mutex }

func (m *Mutex) Lock() {
	if !verifsim.Active() {
		m.mu.Lock()
		return
	}
	verifsim.SyncPoint()
	for !m.mu.TryLock() {
		verifsim.Block(uintptr(unsafe.Pointer(m)))
	}
	verifsim.LockAcquired()
}

func (m *Mutex) TryLock() bool {
	ok := m.mu.TryLock()
	if ok && verifsim.Active() {
		verifsim.LockAcquired()
	}
	return ok
}

func (m *Mutex) Unlock() {
	m.mu.Unlock()
	if verifsim.Active() {
		verifsim.LockReleased()
		verifsim.Unblock(uintptr(unsafe.Pointer(m)))
		verifsim.SyncPoint()
	}
}

// ---------------------------------------------------------------- RWMutex

type RWMutex struct{ mu sync.RWMutex }

func (m *RWMutex) Lock() {
	if !verifsim.Active() {
		m.mu.Lock()
		return
	}
	verifsim.SyncPoint()
	for !m.mu.TryLock() {
		verifsim.Block(uintptr(unsafe.Pointer(m)))
	}
	verifsim.LockAcquired()
}

func (m *RWMutex) RLock() {
	if !verifsim.Active() {
		m.mu.RLock()
		return
	}
	verifsim.SyncPoint()
	for !m.mu.TryRLock() {
		verifsim.Block(uintptr(unsafe.Pointer(m)))
	}
	verifsim.LockAcquired()
}

func (m *RWMutex) TryLock() bool {
	ok := m.mu.TryLock()
	if ok && verifsim.Active() {
		verifsim.LockAcquired()
	}
	return ok
}

func (m *RWMutex) TryRLock() bool {
	ok := m.mu.TryRLock()
	if ok && verifsim.Active() {
		verifsim.LockAcquired()
	}
	return ok
}

func (m *RWMutex) Unlock() {
	m.mu.Unlock()
	if verifsim.Active() {
		verifsim.LockReleased()
		verifsim.Unblock(uintptr(unsafe.Pointer(m)))
		verifsim.SyncPoint()
	}
}

func (m *RWMutex) RUnlock() {
	m.mu.RUnlock()
	if verifsim.Active() {
		verifsim.LockReleased()
		verifsim.Unblock(uintptr(unsafe.Pointer(m)))
		verifsim.SyncPoint()
	}
}

type rlocker RWMutex

func (r *rlocker) Lock()   { (*RWMutex)(r).RLock() }
func (r *rlocker) Unlock() { (*RWMutex)(r).RUnlock() }

func (m *RWMutex) RLocker() Locker { return (*rlocker)(m) }

// ---------------------------------------------------------------- Once

// Once has the structure of the real sync.Once, on top of the cooperative Mutex.
type Once struct {
	done uint32
	m    Mutex
}

func (o *Once) Do(f func()) {
	if atomic.LoadUint32(&o.done) == 1 {
		return
	}
	if !o.m.TryLock() {
		verifsim.Probe(verifsim.ProbeOnceContend)
		o.m.Lock()
	}
	defer o.m.Unlock()
	if o.done == 0 {
		defer atomic.StoreUint32(&o.done, 1)
		f()
	}
}

// ---------------------------------------------------------------- Pool

// Pool hands out objects as the simulator decides: a fresh one, the most
// recently returned, the oldest, or a random one; Put may drop. All of these
// are behaviours the real sync.Pool may show (per-P caches, victim caches, GC).
type Pool struct {
	New func() any

	real  sync.Pool
	items []any // manually managed (no append/copy: the runtime's slice helpers are race-instrumented even under //go:norace)
	n     int
	outs  [8]unsafe.Pointer // data words of objects currently checked out (best effort, for the steering probe)
	out   int64
	reg   bool
}

var (
	allPools     [1 << 16]*Pool
	nPools       int
	poolRaceHash [128]uint64
)

// poolRaceAddr mirrors the runtime's choice of synchronisation address.
//
//go:norace
func poolRaceAddr(x any) unsafe.Pointer {
	ptr := uintptr((*[2]unsafe.Pointer)(unsafe.Pointer(&x))[1])
	h := uint32((uint64(uint32(ptr)) * 0x85ebca6b) >> 16)
	return unsafe.Pointer(&poolRaceHash[h%uint32(len(poolRaceHash))])
}

//go:norace
func (p *Pool) register() {
	if !p.reg && nPools < len(allPools) {
		p.reg = true
		allPools[nPools] = p
		nPools++
	}
}

//go:norace
func (p *Pool) Get() any {
	if verifsim.PoolIsReal() {
		x := p.real.Get()
		if x == nil && p.New != nil {
			x = p.New()
		}
		return x
	}
	p.register()
	verifsim.SyncPoint()
	var x any
	d := verifsim.PoolGetDecision(p.n)
	if d < 0 {
		if p.New != nil {
			x = p.New()
		}
	} else {
		x = p.items[d]
		for i := d; i < p.n-1; i++ {
			p.items[i] = p.items[i+1]
		}
		p.items[p.n-1] = nil
		p.n--
		verifsim.RaceAcquire(poolRaceAddr(x))
	}
	if x != nil {
		// An object that is handed out while another user still has it (it was put back twice): nothing is judged
		// here, but the scheduler is told to interleave the two users as finely as it can for a while.
		w := (*[2]unsafe.Pointer)(unsafe.Pointer(&x))[1]
		free := -1
		for i := range p.outs {
			if p.outs[i] == w {
				verifsim.PoolSharedOut()
			}
			if p.outs[i] == nil && free < 0 {
				free = i
			}
		}
		if free >= 0 {
			p.outs[free] = w
		}
	}
	p.out++
	verifsim.PoolOut(p.out)
	return x
}

//go:norace
func (p *Pool) Put(x any) {
	if x == nil {
		return
	}
	if verifsim.PoolIsReal() {
		p.real.Put(x)
		return
	}
	p.register()
	p.out--
	w := (*[2]unsafe.Pointer)(unsafe.Pointer(&x))[1]
	for i := range p.outs {
		if p.outs[i] == w {
			p.outs[i] = nil
			break
		}
	}
	verifsim.RaceReleaseMerge(poolRaceAddr(x))
	if verifsim.PoolPutDecision() {
		if p.n == len(p.items) {
			ni := make([]any, 2*len(p.items)+8)
			for i := 0; i < p.n; i++ {
				ni[i] = p.items[i]
			}
			p.items = ni
		}
		p.items[p.n] = x
		p.n++
	}
	verifsim.SyncPoint()
}

// FlushPools empties every simulated pool (what a garbage collection does to sync.Pool).
//
//go:norace
func FlushPools() {
	for k := 0; k < nPools; k++ {
		p := allPools[k]
		for i := 0; i < p.n; i++ {
			p.items[i] = nil
		}
		p.n = 0
	}
	verifsim.PoolFlushed()
}

// PooledObjects reports how many objects are currently parked in simulated pools.
//
//go:norace
func PooledObjects() int {
	n := 0
	for k := 0; k < nPools; k++ {
		n += allPools[k].n
	}
	return n
}
