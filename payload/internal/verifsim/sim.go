// Package verifsim is the simulator runtime that the instrumented copy of
// frugal is linked against. Exactly one task (a real goroutine) holds the run
// token at any time; every Yield, lock, unlock, atomic publish and pool
// operation is a point where a seeded decision stream may hand the token to
// another task. Nothing here reads a clock or any other source of
// nondeterminism: one seed is one execution.
//
// All scheduler code is //go:norace and token hand-offs happen inside
// RaceDisable/RaceEnable (race builds), so ThreadSanitizer sees only the
// synchronisation the code under test performs itself.
package verifsim

import (
	"fmt"
	"os"
	"runtime"
	"sync"
	"sync/atomic"
	"time"
)

// ---------------------------------------------------------------- rng

// Rng is splitmix64.
type Rng struct{ s uint64 }

//go:norace
func NewRng(seed uint64) *Rng { return &Rng{s: seed} }

//go:norace
func (r *Rng) Next() uint64 {
	r.s += 0x9e3779b97f4a7c15
	z := r.s
	z = (z ^ (z >> 30)) * 0xbf58476d1ce4e5b9
	z = (z ^ (z >> 27)) * 0x94d049bb133111eb
	return z ^ (z >> 31)
}

//go:norace
func (r *Rng) Intn(n int) int {
	if n <= 1 {
		return 0
	}
	return int(r.Next() % uint64(n))
}

// Mix hashes values into one seed (used to derive independent streams).
//
//go:norace
func Mix(vs ...uint64) uint64 {
	h := uint64(0x243f6a8885a308d3)
	for _, v := range vs {
		h ^= v + 0x9e3779b97f4a7c15 + (h << 6) + (h >> 2)
		h *= 0xff51afd7ed558ccd
		h ^= h >> 33
	}
	return h
}

// ---------------------------------------------------------------- config

// Strategy names.
const (
	StratNonPreemptive = "nonpreemptive" // a task runs until it blocks or finishes
	StratUniform       = "uniform"       // switch with probability 1/Den at every point
	StratSyncBiased    = "syncbiased"    // 1/2 right after a visible sync event, 1/64 elsewhere
	StratPCT           = "pct"           // priorities with D random change points
)

// Config of one simulated execution.
type Config struct {
	Seed     uint64
	Strategy string
	Den      int   // uniform: switch probability is 1/Den
	PCTDepth int   // pct: number of priority change points
	PCTSteps int64 // pct: estimated length of the run in steps
	// StartAt[i] is the global step at which task i becomes runnable (staggered arrival).
	StartAt []int64
	// Order is the fixed task order of the non-preemptive strategy (nil: 0,1,2,...).
	Order []int
	// GCAt lists global steps at which a forced runtime.GC() runs inside Yield.
	GCEvery int64 // >0: force a collection every GCEvery steps (mid-operation)
	// MaxSteps bounds the run (progress bound); 0 = default.
	MaxSteps int64
	// Pool behaviour: "sim" (seeded hand-out) or "real" (delegate to sync.Pool).
	Pool string
	// ExplicitSwitches, when non-nil, replays a recorded schedule: at step k switch to task v.
	ExplicitSwitches map[int64]int
}

// Result of one simulated execution.
type Result struct {
	OpBound    bool // NoProgress is the per-operation bound (the run ended inside one call)
	Steps      int64
	Switches   int64
	SchedHash  uint64
	Deadlock   string // non-empty: description of the wait-for situation
	NoProgress string
	GCs        int64
	TaskSteps  []int64
	SwitchLog  []Switch // recorded schedule (step -> task), bounded
	PoolStats  PoolStats
	BlockedAcq int64 // lock acquisitions that had to wait
}

type Switch struct {
	Step int64 `json:"s"`
	To   int   `json:"t"`
}

type PoolStats struct {
	GetNew, GetRecent, GetOldest, GetRandom int64
	PutKeep, PutDrop, Flushes               int64
	MaxOut                                  int64 // most objects of one pool checked out at once
}

// ---------------------------------------------------------------- state

type task struct {
	id      int
	wake    chan struct{}
	fn      func()
	done    bool
	started bool
	blocked uintptr // non-zero: waiting for this object
	steps   int64
	prio    int
	opTag   int64 // set by the harness: current operation index (for probes)
	goid    int64 // the runtime's id of the task's goroutine
	ext     bool  // presumed blocked in an operation the simulator does not schedule; the token was taken from it
}

type sched struct {
	opBound     bool // the run ended on the per-operation step bound
	idle        bool // nobody holds the token: it waits for a task that blocked outside the scheduler (see goIdle)
	cfg         Config
	rng         *Rng
	tasks       []*task
	cur         *task
	step        int64
	sw          int64
	hash        uint64
	log         [1024]Switch
	nlog        int
	main        chan struct{}
	join        sync.WaitGroup
	dead        string
	noprog      string
	gcs         int64
	nextGC      int64
	pct         []int64 // change points
	blkAcq      int64
	lastSyn     bool // the previous point was a visible sync event
	frenzyUntil int64
}

var (
	active   bool
	cur      *sched
	siteHits []int64 // per yield site, all phases
	probe    [NumProbes]int64
	poolSt   PoolStats
	poolMode = "sim"
	poolRng  = NewRng(1)
	// stepTotal counts every Yield in the process, active or not (the C05 step bound uses it).
	stepTotal int64
)

// Probes are "this rare condition was reached" counters.
const (
	ProbeLockWait      = iota // a task waited for a lock held by another
	ProbeSwitchInLock         // a switch happened while some lock was held
	ProbePoolTwoOut           // >= 2 objects of one pool checked out at once
	ProbeAtomicStoreSw        // switch right after an atomic store (publish window)
	ProbeAtomicLoadNil        // atomic pointer load returned nil (lock-free miss)
	ProbePoolDirty            // pool handed out a recycled object
	ProbePoolFresh            // pool handed out a fresh object though recycled ones existed
	ProbeMidOpGC              // forced GC in the middle of an operation
	ProbeOnceContend          // sync.Once entered by two tasks
	ProbePoolSharedOut        // a pool handed out an object that another user still had checked out
	NumProbes
)

var ProbeNames = [NumProbes]string{"lock_wait", "switch_while_lock_held", "pool_two_out", "switch_after_atomic_store",
	"atomic_load_nil", "pool_recycled_handout", "pool_fresh_despite_recycled", "mid_operation_gc", "once_contended", "pool_object_handed_out_twice"}

var locksHeld int64

//go:norace
func Probe(i int) { probe[i]++ }

//go:norace
func Probes() []int64 { return append([]int64(nil), probe[:]...) }

//go:norace
func SiteHits() []int64 { return append([]int64(nil), siteHits...) }

//go:norace
func Steps() int64 { return stepTotal }

//go:norace
func Active() bool { return active }

//go:norace
func GetPoolStats() PoolStats { return poolSt }

// SetPool selects the pool mode and seeds the pool decision stream (also used outside Run).
//
//go:norace
func SetPool(mode string, seed uint64) {
	if mode == "" {
		mode = "sim"
	}
	poolMode = mode
	poolRng = NewRng(seed)
}

// ReseedPool starts a new pool decision stream (per operation slot, so that
// removing other operations from a history does not change this one's decisions).
//
//go:norace
func ReseedPool(seed uint64) { poolRng = NewRng(seed) }

// ---------------------------------------------------------------- yield

// Yield is called by the instrumented code after the opening brace of every
// function body, function literal and loop body.
//
//go:norace
func Yield(site int) {
	stepTotal++
	if site >= len(siteHits) {
		grow := make([]int64, site+64)
		for i := range siteHits {
			grow[i] = siteHits[i]
		}
		siteHits = grow
	}
	siteHits[site]++
	if !active {
		return
	}
	point(false)
}

// SyncPoint is called by the shims right after something became visible to
// other tasks (unlock, atomic store, pool put) or right before a visible read.
//
//go:norace
func SyncPoint() {
	stepTotal++
	if !active {
		return
	}
	point(true)
}

// AfterStore is the scheduling point right after an atomic store / publication.
//
//go:norace
func AfterStore() {
	stepTotal++
	if !active {
		return
	}
	afterStore = true
	point(true)
	afterStore = false
}

var afterStore bool

// SetOpLimit bounds the steps of the call that follows (single-task worlds): n > 0 arms the bound, 0 disarms it. A
// run that ends on this bound ended inside one call; a run that ends on MaxSteps merely was long.
//
//go:norace
func SetOpLimit(n int64) {
	if !active || n <= 0 {
		opLimit = 0
		return
	}
	opStart = cur.step
	opLimit = cur.step + n
}

var opLimit, opStart int64

// PoolSharedOut: steering only. For the next stretch of the run every scheduling point is a coin flip.
//
//go:norace
func PoolSharedOut() {
	probe[ProbePoolSharedOut]++
	if active {
		cur.frenzyUntil = cur.step + 20000
	}
}

// maxMidOpGCs bounds the forced collections of one run (a collection costs milliseconds; with statement-granularity
// yields a run passes millions of points).
const maxMidOpGCs = 300

//go:norace
func point(sync bool) {
	s := cur
	s.reenter()
	t := s.cur
	s.step++
	t.steps++
	if s.cfg.GCEvery > 0 && s.step >= s.nextGC && s.gcs < maxMidOpGCs {
		s.nextGC = s.step + s.cfg.GCEvery
		s.gcs++
		probe[ProbeMidOpGC]++
		runtime.GC()
	}
	max := s.cfg.MaxSteps
	if max == 0 {
		max = 50_000_000
	}
	if s.step > max {
		s.noprog = fmt.Sprintf("step bound %d exceeded (task %d running)", max, t.id)
		s.abort()
	}
	if opLimit > 0 && s.step > opLimit {
		s.noprog = fmt.Sprintf("operation step bound exceeded: %d steps inside one call (task %d)", s.step-opStart, t.id)
		s.opBound = true
		s.abort()
	}
	next := s.pick(t, sync)
	s.lastSyn = sync
	if next != t {
		if locksHeld > 0 {
			probe[ProbeSwitchInLock]++
		}
		if afterStore {
			probe[ProbeAtomicStoreSw]++
		}
		s.switchTo(t, next)
	}
}

//go:norace
func (s *sched) runnable(t *task) bool {
	return !t.done && t.blocked == 0 && !t.ext && (t.started || s.startAt(t) <= s.step)
}

//go:norace
func (s *sched) startAt(t *task) int64 {
	if t.id < len(s.cfg.StartAt) {
		return s.cfg.StartAt[t.id]
	}
	return 0
}

// pick decides who runs next. It never returns a task that is not runnable.
//
//go:norace
func (s *sched) pick(t *task, sync bool) *task {
	if s.cfg.ExplicitSwitches != nil {
		if to, ok := s.cfg.ExplicitSwitches[s.step]; ok && to < len(s.tasks) && s.runnable(s.tasks[to]) {
			return s.tasks[to]
		}
		return t
	}
	if s.step < s.frenzyUntil && s.cfg.Strategy != StratNonPreemptive && s.cfg.Strategy != "" {
		// 1/12: often enough to stop a task between two statements of a short critical sequence, rarely enough for
		// the other task to get through a whole such sequence before it is stopped itself
		if s.rng.Intn(12) != 0 {
			return t
		}
		return s.otherRunnable(t)
	}
	switch s.cfg.Strategy {
	case StratNonPreemptive, "":
		return t
	case StratPCT:
		for len(s.pct) > 0 && s.step >= s.pct[0] {
			s.pct = s.pct[1:]
			t.prio = -int(s.step) // demote the running task below everyone
		}
		best := t
		for _, o := range s.tasks {
			if o != t && s.runnable(o) && o.prio > best.prio {
				best = o
			}
		}
		return best
	case StratSyncBiased:
		den := 64
		if sync {
			den = 2
		}
		if s.rng.Intn(den) != 0 {
			return t
		}
	default: // uniform
		den := s.cfg.Den
		if den <= 0 {
			den = 8
		}
		if s.rng.Intn(den) != 0 {
			return t
		}
	}
	return s.otherRunnable(t)
}

// otherRunnable chooses uniformly among the other runnable tasks (t itself if there is none).
//
//go:norace
func (s *sched) otherRunnable(t *task) *task {
	n := 0
	for _, o := range s.tasks {
		if o != t && s.runnable(o) {
			n++
		}
	}
	if n == 0 {
		return t
	}
	k := s.rng.Intn(n)
	for _, o := range s.tasks {
		if o != t && s.runnable(o) {
			if k == 0 {
				return o
			}
			k--
		}
	}
	return t
}

// switchTo hands the token from t to next and parks t until it is chosen again.
//
//go:norace
func (s *sched) switchTo(t, next *task) {
	s.sw++
	s.hash = Mix(s.hash, uint64(s.step), uint64(next.id))
	if s.nlog < len(s.log) {
		s.log[s.nlog] = Switch{s.step, next.id}
		s.nlog++
	}
	s.cur = next
	raceDisable()
	s.resume(next)
	if t != nil {
		<-t.wake
	}
	raceEnable()
}

//go:norace
func (s *sched) resume(next *task) {
	next.started = true
	next.wake <- struct{}{}
}

// taskMain is the body of a task goroutine. All task goroutines are created by
// the main goroutine before the run starts (so the only fork edge the race
// detector sees is main -> task) and park until they are first chosen.
//
//go:norace
func (s *sched) taskMain(t *task) {
	raceDisable()
	t.goid = goid()
	<-t.wake
	// The task body runs in "harness mode": synchronisation events of the harness itself (journal writes, fmt and
	// encoding/json pools, ...) are ignored by the race detector, so that they neither get reported nor add
	// happens-before edges between tasks that could hide frugal's own races. Calls into frugal are bracketed by
	// Visible, inside which the detector sees everything.
	t.fn()
	s.reenter() // (a task that came back from an unscheduled blocking operation waits for the token first)
	raceEnable()
	s.join.Done() // real release edge towards the final join in Run
	raceDisable()
	t.done = true
	s.step++
	nx := s.anyRunnable()
	if nx == nil {
		if !s.allDone() {
			if s.goIdle() {
				return
			}
			s.dead = s.describeWaits()
		}
		s.main <- struct{}{}
		return
	}
	s.sw++
	s.hash = Mix(s.hash, uint64(s.step), uint64(nx.id))
	if s.nlog < len(s.log) {
		s.log[s.nlog] = Switch{s.step, nx.id}
		s.nlog++
	}
	s.cur = nx
	s.resume(nx)
}

//go:norace
func (s *sched) allDone() bool {
	for _, o := range s.tasks {
		if !o.done {
			return false
		}
	}
	return true
}

// anyRunnable picks the next task when the current one cannot continue.
// Tasks that have not arrived yet are admitted early if nothing else can run.
//
//go:norace
func (s *sched) anyRunnable() *task {
	n := 0
	var firstCand *task
	for _, o := range s.tasks {
		if s.runnable(o) {
			if firstCand == nil {
				firstCand = o
			}
			n++
		}
	}
	if s.cfg.ExplicitSwitches != nil && n > 0 {
		if to, ok := s.cfg.ExplicitSwitches[s.step]; ok && to < len(s.tasks) && s.runnable(s.tasks[to]) {
			return s.tasks[to]
		}
		return firstCand
	}
	if n == 0 {
		// admit the not-yet-arrived task with the earliest arrival
		var best *task
		for _, o := range s.tasks {
			if !o.done && !o.started && o.blocked == 0 {
				if best == nil || s.startAt(o) < s.startAt(best) {
					best = o
				}
			}
		}
		if best != nil {
			if best.id < len(s.cfg.StartAt) {
				s.cfg.StartAt[best.id] = s.step
			}
			return best
		}
		return nil
	}
	switch s.cfg.Strategy {
	case StratNonPreemptive, "":
		// fixed order
		for _, id := range s.cfg.Order {
			if id < len(s.tasks) && s.runnable(s.tasks[id]) {
				return s.tasks[id]
			}
		}
		return firstCand
	case StratPCT:
		best := firstCand
		for _, o := range s.tasks {
			if s.runnable(o) && o.prio > best.prio {
				best = o
			}
		}
		return best
	}
	k := s.rng.Intn(n)
	for _, o := range s.tasks {
		if s.runnable(o) {
			if k == 0 {
				return o
			}
			k--
		}
	}
	return firstCand
}

//go:norace
func (s *sched) describeWaits() string {
	d := "deadlock:"
	for _, o := range s.tasks {
		if !o.done {
			d += fmt.Sprintf(" task%d waits on %#x;", o.id, o.blocked)
		}
	}
	return d
}

// abort ends the run from inside a task (step bound). The process reports and exits:
// the other tasks are parked forever, which is fine for a child process that is about to exit.
//
//go:norace
func (s *sched) abort() {
	raceDisable()
	s.main <- struct{}{}
	select {} // park this task for good
}

// Block parks the current task until obj is released by another task.
//
//go:norace
func Block(obj uintptr) {
	if !active {
		runtime.Gosched()
		return
	}
	s := cur
	s.reenter()
	t := s.cur
	probe[ProbeLockWait]++
	s.blkAcq++
	t.blocked = obj
	s.step++
	nx := s.anyRunnable()
	if nx == nil {
		if s.goIdle() {
			// tasks that blocked outside the scheduler are still out: the next one that comes back takes the token
			raceDisable()
			<-t.wake
			raceEnable()
			return
		}
		s.dead = s.describeWaits()
		s.abort()
	}
	s.switchTo(t, nx)
}

// goIdle: nobody can run right now, but some task is blocked in an operation the simulator does not schedule and may
// come back. The token is left on the table (idle) for the first one that does.
//
//go:norace
func (s *sched) goIdle() bool {
	extMu.Lock()
	ok := atomic.LoadInt32(&nExt) > 0
	if ok {
		s.idle = true
	}
	extMu.Unlock()
	return ok
}

// Unblock makes every task waiting on obj runnable again.
//
//go:norace
func Unblock(obj uintptr) {
	if !active {
		return
	}
	cur.wakeAll(obj)
}

//go:norace
func (s *sched) wakeAll(obj uintptr) {
	for _, o := range s.tasks {
		if o.blocked == obj {
			o.blocked = 0
		}
	}
}

//go:norace
func LockAcquired() { locksHeld++ }

//go:norace
func LockReleased() { locksHeld-- }

// CurrentTask returns the id of the running task (-1 outside Run).
//
//go:norace
func CurrentTask() int {
	if !active {
		return -1
	}
	return cur.cur.id
}

// TaskSteps returns the number of scheduling points the running task has passed (its own logical time).
//
//go:norace
func TaskSteps() int64 {
	if !active {
		return stepTotal
	}
	return cur.cur.steps
}

// TaskID returns the index of the task that is running (0 outside a run).
//
//go:norace
func TaskID() int {
	if !active {
		return 0
	}
	return cur.cur.id
}

// GlobalStep returns the scheduler's step counter of the current run.
//
//go:norace
func GlobalStep() int64 {
	if !active {
		return 0
	}
	return cur.step
}

// ---------------------------------------------------------------- run

var runMu sync.Mutex

// Run executes the task functions under the scheduler and returns when all
// have finished, or a deadlock / step bound was hit.
//
//go:norace
func Run(cfg Config, fns []func()) Result {
	runMu.Lock()
	defer runMu.Unlock()
	s := &sched{cfg: cfg, rng: NewRng(Mix(cfg.Seed, 0x5c4ed)), main: make(chan struct{}, 1)}
	if cfg.StartAt != nil {
		s.cfg.StartAt = append([]int64(nil), cfg.StartAt...)
	}
	for i, fn := range fns {
		s.tasks = append(s.tasks, &task{id: i, wake: make(chan struct{}, 1), fn: fn})
	}
	if cfg.Strategy == StratPCT {
		pr := NewRng(Mix(cfg.Seed, 0x9c7))
		perm := make([]int, len(fns))
		for i := range perm {
			perm[i] = i
		}
		for i := len(perm) - 1; i > 0; i-- {
			j := pr.Intn(i + 1)
			perm[i], perm[j] = perm[j], perm[i]
		}
		for i, t := range s.tasks {
			t.prio = 1000 + perm[i]
		}
		n := cfg.PCTSteps
		if n < 16 {
			n = 16
		}
		for d := 0; d < cfg.PCTDepth; d++ {
			s.pct = append(s.pct, int64(pr.Next()%uint64(n)))
		}
		sortInt64(s.pct)
	}
	if cfg.GCEvery > 0 {
		s.nextGC = cfg.GCEvery
	}
	if cfg.Pool != "" {
		poolMode = cfg.Pool
	}
	if len(fns) == 0 {
		return Result{}
	}
	cur = s
	locksHeld = 0
	s.join.Add(len(s.tasks))
	for _, t := range s.tasks {
		go s.taskMain(t)
	}
	active = true
	first := s.anyRunnable()
	s.cur = first
	s.hash = Mix(uint64(first.id))
	stopMon := make(chan struct{})
	go s.stallMonitor(stopMon)
	raceDisable()
	s.resume(first)
	<-s.main
	raceEnable()
	close(stopMon)
	active = false
	if s.dead == "" && s.noprog == "" {
		s.join.Wait() // real acquire edge: everything the tasks did happens-before what follows
	}
	r := Result{Steps: s.step, Switches: s.sw, SchedHash: s.hash, Deadlock: s.dead, NoProgress: s.noprog, OpBound: s.opBound,
		GCs: s.gcs, SwitchLog: append([]Switch(nil), s.log[:s.nlog]...), PoolStats: poolSt, BlockedAcq: s.blkAcq}
	for _, t := range s.tasks {
		r.TaskSteps = append(r.TaskSteps, t.steps)
	}
	return r
}

// OnStall, if set, is called (on the monitor's goroutine) when the run cannot go on: the task that holds the run token
// is blocked in an operation the simulator does not schedule (a channel operation, a real lock) and no other task can
// run either - or, as a fallback, when no task has passed a yield point for StallSeconds of wall time inside the code
// under test. The argument is the dump of all goroutine stacks. The hook is expected not to return.
var (
	OnStall      func(stacks string)
	StallSeconds = 25
)

var nExt int32 // tasks whose token was taken away while they were blocked (atomic)

var extMu sync.Mutex // orders the rare hand-overs between the monitor, a task that goes idle and a task that comes back

// ExtHandoffs counts how often the token was taken from a task that blocked in an unscheduled operation.
var ExtHandoffs int

// stallMonitor watches the step counter from outside. A token holder that stops passing yield points while it is
// inside the code under test and whose goroutine sits in a blocking state (channel, lock, select) is waiting for
// something only another task can do - but every other task is parked. The monitor then takes the token away and
// gives it to another runnable task (the blocked goroutine stays where it is; when it comes back it waits for the
// token at its next scheduling point, see reenter). Only when no other task can run is this a deadlock of the code
// under test. Runs in which this happens are timing-dependent from there on (they do not replay step by step).
//
//go:norace
func (s *sched) stallMonitor(stop chan struct{}) {
	last, same, idleTicks := int64(-1), 0, 0
	tick := 50 * time.Millisecond
	buf := make([]byte, 4<<20)
	for {
		select {
		case <-stop:
			return
		case <-time.After(tick):
		}
		if s.idle {
			// nobody holds the token. If every task that is out is really blocked (and stays so for a second), nothing
			// will ever move again: a deadlock of the code under test.
			idleTicks++
			n := runtime.Stack(buf, true)
			all := true
			for _, o := range s.tasks {
				if o.ext && !blockedState(buf[:n], o.goid) {
					all = false
				}
			}
			if !all {
				idleTicks = 0
			}
			if idleTicks >= 20 && OnStall != nil {
				OnStall(string(buf[:n]))
				return
			}
			last, same = s.step, 0
			continue
		}
		idleTicks = 0
		if s.step != last || inHarness() {
			last, same = s.step, 0
			continue
		}
		same++
		if same >= 3 || (ExtHandoffs > 0 && same >= 1) {
			t := s.cur
			n := runtime.Stack(buf, true)
			if t != nil && !t.done && !t.ext && blockedState(buf[:n], t.goid) {
				extMu.Lock()
				t.ext = true
				atomic.AddInt32(&nExt, 1)
				ExtHandoffs++
				s.step++
				if nx := s.anyRunnable(); nx != nil {
					s.cur = nx
					extMu.Unlock()
					last, same = s.step, 0
					s.resume(nx)
					continue
				}
				s.idle = true
				extMu.Unlock()
				continue
			}
		}
		if same >= StallSeconds*20 && OnStall != nil {
			n := runtime.Stack(buf, true)
			OnStall(string(buf[:n]))
			return
		}
	}
}

// reenter is called at every scheduling point. Normally it returns at once. A task whose token was taken away while it
// was blocked (ext) and that has come back parks here until the scheduler chooses it again.
//
//go:norace
func (s *sched) reenter() {
	if atomic.LoadInt32(&nExt) == 0 {
		return
	}
	id := goid()
	for _, o := range s.tasks {
		if o.goid == id {
			if o.ext {
				extMu.Lock()
				o.ext = false
				atomic.AddInt32(&nExt, -1)
				if s.idle {
					// nobody holds the token: take it
					s.idle = false
					s.cur = o
					extMu.Unlock()
					return
				}
				extMu.Unlock()
				raceDisable()
				<-o.wake
				raceEnable()
			}
			return
		}
	}
}

// goid parses the id of the calling goroutine out of its stack header ("goroutine 123 [running]:").
//
//go:norace
func goid() int64 {
	var b [40]byte
	n := runtime.Stack(b[:], false)
	var id int64
	for i := len("goroutine "); i < n && b[i] >= '0' && b[i] <= '9'; i++ {
		id = id*10 + int64(b[i]-'0')
	}
	return id
}

// blockedState reports whether the dump shows goroutine id in a state only another goroutine can end.
//
//go:norace
func blockedState(dump []byte, id int64) bool {
	var pat [40]byte
	k := 0
	for _, c := range []byte("goroutine ") {
		pat[k] = c
		k++
	}
	var dg [20]byte
	nd := 0
	for v := id; v > 0; v /= 10 {
		dg[nd] = byte('0' + v%10)
		nd++
	}
	for nd > 0 {
		nd--
		pat[k] = dg[nd]
		k++
	}
	pat[k], pat[k+1] = ' ', '['
	k += 2
	for i := 0; i+k < len(dump); i++ {
		if (i == 0 || dump[i-1] == '\n') && hasPrefixAt(dump, i, pat[:k]) {
			st := dump[i+k:]
			for _, w := range [...]string{"chan receive", "chan send", "select", "semacquire", "sync.Mutex.Lock", "sync.RWMutex", "sync.Cond.Wait", "sync.WaitGroup.Wait"} {
				if hasPrefixAt(st, 0, []byte(w)) {
					return true
				}
			}
			return false
		}
	}
	return false
}

//go:norace
func hasPrefixAt(b []byte, at int, p []byte) bool {
	if at+len(p) > len(b) {
		return false
	}
	for i := range p {
		if b[at+i] != p[i] {
			return false
		}
	}
	return true
}

// inHarness: the current task is outside Visible (harness code, which may legitimately compute for long without
// passing a yield point).
//
//go:norace
func inHarness() bool { return visibleDepth == 0 }

//go:norace
func sortInt64(a []int64) {
	for i := 1; i < len(a); i++ {
		for j := i; j > 0 && a[j] < a[j-1]; j-- {
			a[j], a[j-1] = a[j-1], a[j]
		}
	}
}

// Fatalf reports machinery trouble (never a property violation) and exits 2.
func Fatalf(format string, a ...interface{}) {
	fmt.Fprintf(os.Stderr, "VERIFSIM-MACHINERY: "+format+"\n", a...)
	os.Exit(2)
}

// ---------------------------------------------------------------- pools

// PoolGetDecision chooses which of n pooled objects a Get returns: an index in
// [0,n), or -1 for "call New". All four are legal behaviours of sync.Pool.
//
//go:norace
func PoolGetDecision(n int) int {
	if n == 0 {
		poolSt.GetNew++
		return -1
	}
	if poolMode == "lifo" {
		// what a single goroutine sees of the real sync.Pool between collections: always the object put back last
		poolSt.GetRecent++
		probe[ProbePoolDirty]++
		return n - 1
	}
	switch r := poolRng.Intn(8); {
	case r == 0:
		poolSt.GetNew++
		probe[ProbePoolFresh]++
		return -1
	case r <= 4:
		poolSt.GetRecent++
		probe[ProbePoolDirty]++
		return n - 1
	case r == 5:
		poolSt.GetOldest++
		probe[ProbePoolDirty]++
		return 0
	default:
		poolSt.GetRandom++
		probe[ProbePoolDirty]++
		return poolRng.Intn(n)
	}
}

// PoolPutDecision reports whether a Put keeps the object (true) or drops it.
//
//go:norace
func PoolPutDecision() bool {
	if poolMode == "lifo" {
		poolSt.PutKeep++
		return true
	}
	if poolRng.Intn(8) == 0 {
		poolSt.PutDrop++
		return false
	}
	poolSt.PutKeep++
	return true
}

//go:norace
func PoolOut(out int64) {
	if out > poolSt.MaxOut {
		poolSt.MaxOut = out
	}
	if out >= 2 {
		probe[ProbePoolTwoOut]++
	}
}

//go:norace
func PoolFlushed() { poolSt.Flushes++ }

//go:norace
func PoolIsReal() bool { return poolMode == "real" }

// Visible runs f (a call into the code under test) with the race detector seeing its synchronisation events.
// Outside Visible a task is in harness mode (see taskMain).
//
//go:norace
func Visible(f func()) {
	if !active {
		f()
		return
	}
	visibleDepth++
	raceEnable()
	defer visibleExit()
	f()
}

//go:norace
func visibleExit() {
	raceDisable()
	visibleDepth--
}

// visibleDepth counts the Visible sections in progress (tasks run one at a time, a task parked inside Visible keeps
// its count: > 0 means some task is inside the code under test).
var visibleDepth int
