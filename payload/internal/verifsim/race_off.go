//go:build !race

package verifsim

import "unsafe"

const RaceBuild = false

func raceDisable()                      {}
func raceEnable()                       {}
func RaceAcquire(p unsafe.Pointer)      {}
func RaceReleaseMerge(p unsafe.Pointer) {}
