// Command vsim is the orchestrator of the deterministic simulation:
//
//	vsim check  -p C07 -tier quick      run the check of one property (exit 0 held / 1 violation / 2 machinery)
//	vsim replay <file>                  re-run a replay file against /repo's current tree
//	vsim build  [-race] [-corpus N]     build the simulated world only
//	vsim selftest determinism|mutants   verify the verifier
package main

import (
	"flag"
	"fmt"
	"os"
	"strconv"
	"strings"
	"time"
)

func envOr(k, d string) string {
	if v := os.Getenv(k); v != "" {
		return v
	}
	return d
}

func main() {
	if len(os.Args) < 2 {
		fmt.Fprintln(os.Stderr, "usage: vsim check|replay|build|selftest ...")
		os.Exit(2)
	}
	switch os.Args[1] {
	case "build":
		fs := flag.NewFlagSet("build", flag.ExitOnError)
		race := fs.Bool("race", false, "")
		corpus := fs.Uint64("corpus", 1, "")
		tc := fs.String("toolchain", "go", "")
		stmt := fs.Bool("stmt", false, "")
		fs.Parse(os.Args[2:])
		b, err := GetBuild(BuildCfg{Corpus: *corpus, Race: *race, Toolchain: *tc, Stmt: *stmt})
		if err != nil {
			fmt.Fprintln(os.Stderr, "BUILD FAILED:", err)
			os.Exit(2)
		}
		fmt.Printf("built %s (cached=%v, %.1fs, %d yield sites)\n", b.Bin, b.Cached, b.Secs, len(b.Sites))
	case "check":
		fs := flag.NewFlagSet("check", flag.ExitOnError)
		prop := fs.String("p", "", "property id")
		tier := fs.String("tier", envOr("VERIF_TIER", "quick"), "quick|thorough")
		budget := fs.Duration("budget", 0, "time box for exploration (after the builds)")
		maxRuns := fs.Int("max-runs", 0, "")
		fs.Parse(os.Args[2:])
		seed := uint64(1)
		if s := os.Getenv("VERIF_SEED"); s != "" {
			if v, err := strconv.ParseUint(s, 10, 64); err == nil {
				seed = v
			}
		}
		if *budget == 0 {
			*budget = 55 * time.Second
			if *tier == "thorough" {
				*budget = 25 * time.Minute
			}
		}
		if *maxRuns == 0 {
			*maxRuns = 1 << 30
		}
		if _, ok := levelOf[*prop]; !ok {
			fmt.Fprintln(os.Stderr, "not a claimed property:", *prop)
			os.Exit(2)
		}
		os.Exit(runCheck(*prop, *tier, seed, *budget, *maxRuns))
	case "selftest":
		fs := flag.NewFlagSet("selftest", flag.ExitOnError)
		props := fs.String("p", "C04,C05,C06,C07,C08,C09,C13,C16,C17", "properties")
		n := fs.Int("n", 40, "run seeds per property (determinism)")
		filter := fs.String("filter", "", "substring of mutant file names (mutants)")
		budget := fs.Duration("budget", 25*time.Second, "per check time box (mutants)")
		if len(os.Args) < 3 {
			fmt.Fprintln(os.Stderr, "usage: vsim selftest determinism|mutants")
			os.Exit(2)
		}
		fs.Parse(os.Args[3:])
		seed := uint64(1)
		if s := os.Getenv("VERIF_SEED"); s != "" {
			if v, err := strconv.ParseUint(s, 10, 64); err == nil {
				seed = v
			}
		}
		switch os.Args[2] {
		case "determinism":
			os.Exit(selftestDeterminism(strings.Split(*props, ","), *n, seed))
		case "mutants":
			os.Exit(selftestMutants(*filter, *budget))
		}
		os.Exit(2)
	case "replay":
		if len(os.Args) < 3 {
			fmt.Fprintln(os.Stderr, "usage: vsim replay <file>")
			os.Exit(2)
		}
		os.Exit(runReplay(os.Args[2]))
	default:
		fmt.Fprintln(os.Stderr, "unknown command", os.Args[1])
		os.Exit(2)
	}
}
