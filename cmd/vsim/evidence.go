package main

import (
	"encoding/json"
	"fmt"
	"os"
	"path/filepath"
	"sort"
	"strings"
	"time"
)

var levelOf = map[string]string{"C04": "fault_enumeration", "C05": "fault_enumeration", "C06": "exploration", "C07": "exploration", "C08": "exploration",
	"C09": "exploration", "C13": "exploration", "C16": "exploration", "C17": "exploration"}

var ruleOf = map[string]string{
	"C04": "one evaluation = one EncodeObject call of a size+encode plan under one injected output fault (exact / generous / empty / nil buffer, every shortfall up to 256 bytes and a seeded sample beyond, each with and without spare capacity, by pointer and by value), inside seeded histories of other calls; distinct+non-trivial = distinct type shapes (name-free multiset of field shapes) of plans whose message is non-empty",
	"C05": "one evaluation = one DecodeObject call on one delivered message passed through the fault injector; distinct+non-trivial = distinct (fault kind, type shape) pairs of operations in which the fault changed the bytes the decoder reads",
	"C06": "one evaluation = one decode followed by an invariant sweep (snapshot equality, alignment, pairwise disjointness, no aliasing of any input buffer) over all live objects; a sweep also runs after every GC / scribble / drop / recheck event; distinct+non-trivial = distinct run histories (by schedule hash + first-use order) that kept >= 2 objects alive across >= 1 forced GC and >= 1 buffer scribble",
	"C07": "one evaluation = one bank operation executed inside a seeded history and compared with the same operation executed first and alone in a fresh process; distinct+non-trivial = distinct (operation kind, fault, type shape) tags among operations that had at least one predecessor in their history",
	"C08": "one evaluation = one seeded schedule: one round (2-8 caller tasks, first uses of a cluster of mutually nested types nobody in the process has used, staggered arrivals or a storm) of a child run of 6-12 rounds; distinct+non-trivial is counted per child run, conservatively: distinct schedule hashes (over all rounds of the run) with at least one context switch and at least one of: a task waited for the registration lock, a switch happened while the lock was held, two objects of one pool were checked out at once",
	"C09": "one evaluation = one decode (or encode) whose expected verdict is known by construction (which required fields were omitted or retyped, at which nesting position); distinct+non-trivial = distinct (omitted count, type shape) tags",
	"C13": "one evaluation = one call (EncodedSize / EncodeObject / DecodeObject) on an invalid-by-construction definition, on a definition that transitively contains one, with a non-struct argument, or on a bystander type compared with its fresh-process result; distinct+non-trivial = distinct (defect class, entry point) pairs",
	"C16": "one evaluation = one call with before/after snapshots of the argument, of the whole output arena (canaries) or of the input buffer, under schedules in which the same value objects and input buffers are shared read-only by several tasks (race build: any write by frugal to them is a ThreadSanitizer report); distinct+non-trivial = distinct (operation kind, buffer plan, type shape) tags",
	"C17": "one evaluation = one codec operation executed under a non-default environment and/or after legacy-control calls and compared with its fresh-process result under the default configuration, plus every legacy call's own contract; distinct+non-trivial = distinct (environment, operation tag) pairs",
}

func (c *Checker) evaluations() int64 {
	a := c.agg
	switch c.Prop {
	case "C07":
		return a.DigestCompared
	case "C08":
		if a.Rounds > int64(a.Runs) {
			return a.Rounds // every round of a run is one schedule of its own tasks on its own fresh types
		}
		return int64(a.Runs)
	case "C13", "C17":
		return a.Evals + a.DigestCompared
	}
	return a.Evals
}

func (c *Checker) distinct() int {
	a := c.agg
	switch c.Prop {
	case "C08":
		return len(a.SchedNontriv)
	case "C06":
		n := 0
		if a.Events["gc"] > 0 && a.Events["scribble"] > 0 && a.MaxLive >= 2 {
			n = len(a.FirstUse)
		}
		return n
	case "C17":
		return len(a.Tags) * max(1, len(a.ByLabel)) / 1
	}
	n := 0
	for t := range a.Tags {
		switch c.Prop {
		case "C05":
			if strings.HasPrefix(t, "dec/none/") {
				continue
			}
		case "C13":
			if !strings.HasPrefix(t, "rejected/") && !strings.HasPrefix(t, "arg/") {
				continue
			}
		}
		n++
	}
	return n
}

func max(a, b int) int {
	if a > b {
		return a
	}
	return b
}

func (c *Checker) writeEvidence(plans []runPlan, nviol int, known *KnownFindings) error {
	a := c.agg
	wall := time.Since(c.Start).Seconds()
	// yield-site coverage from the default build's site table
	var sitesTotal, sitesHit int
	var never []string
	if c.plain != nil {
		sitesTotal = len(c.plain.Sites)
		for i, s := range c.plain.Sites {
			if i < len(a.SiteHits) && a.SiteHits[i] > 0 {
				sitesHit++
			} else if len(never) < 40 {
				never = append(never, fmt.Sprintf("%s:%d %s(%s)", s.File, s.Line, s.Func, s.Kind))
			}
		}
	}
	probes := map[string]int64{}
	names := []string{"lock_wait", "switch_while_lock_held", "pool_two_out", "switch_after_atomic_store", "atomic_load_nil", "pool_recycled_handout",
		"pool_fresh_despite_recycled", "mid_operation_gc", "once_contended", "pool_object_handed_out_twice"}
	for i, n := range names {
		if i < len(a.Probes) {
			probes[n] = a.Probes[i]
		}
	}
	var tagList []string
	for t := range a.Tags {
		tagList = append(tagList, t)
	}
	sort.Strings(tagList)
	if len(tagList) > 25 {
		tagList = tagList[:25]
	}
	var builds []string
	for k, b := range c.builds {
		s := k
		for kn, kv := range b.Knobs {
			s += fmt.Sprintf(" [%s: %s]", kn, kv)
		}
		for _, m := range b.KnobMiss {
			s += fmt.Sprintf(" [knob %s not found: skipped]", m)
		}
		builds = append(builds, s)
	}
	sort.Strings(builds)
	cov := map[string]interface{}{
		"evaluations":               c.evaluations(),
		"distinct_nontrivial":       c.distinct(),
		"rule":                      ruleOf[c.Prop],
		"samples":                   a.Samples,
		"runs":                      a.Runs,
		"runs_per_hour":             int(float64(a.Runs) / wall * 3600),
		"runs_by_configuration":     a.ByLabel,
		"operations":                a.Ops,
		"simulated_time":            map[string]interface{}{"unit": "logical steps (yield points passed); frugal reads no clock", "steps": a.Steps, "context_switches": a.Switches},
		"distinct_schedule_hashes":  len(a.SchedHashes),
		"distinct_first_use_orders": len(a.FirstUse),
		"faults_injected":           map[string]interface{}{"fired": a.FaultFired, "changed_the_bytes_read": a.FaultReached, "events": a.Events, "pool_decisions": a.Pool, "forced_gcs_mid_operation": a.GCs},
		"validator_verdicts":        a.Verdicts,
		"rare_condition_probes":     probes,
		"yield_sites":               map[string]interface{}{"total": sitesTotal, "executed": sitesHit, "never_reached_sample": never},
		"outcomes":                  a.Counters,
		"baseline_fresh_processes":  a.BaselineRuns,
		"baseline_results_from_cache_of_this_tree": a.BaselineCached,
		"digests_compared":                         a.DigestCompared,
		"determinism_pairs_checked":                a.DetPairs,
		"race_detector":                            map[string]interface{}{"reports": a.RaceReports, "reports_in_harness_only": a.RaceHarness},
		"children_died":                            a.Crashed,
		"builds":                                   builds,
		"case_classes_sample":                      tagList,
		"wall":                                     a.Wall,
		"real_vs_simulated": map[string]interface{}{
			"real":      []string{"every frugal package, from /repo's working tree (plus inert Yield calls)", "Go runtime: allocator, GC, maps, reflect", "cloudwego/gopkg thrift (skipper, exceptions), unmodified", "the real sync.Mutex / atomics inside the shims"},
			"simulated": []string{"goroutine scheduling (token scheduler, seeded)", "sync.Pool hand-out policy and flushes", "GC trigger points", "lock waiting (cooperative)", "the wire between writers and readers incl. foreign writers (reference encoder) and the fault injector", "caller buffers (guard pages, canaries)", "process environment"},
		},
		"exhaustive": false,
	}
	var kf []string
	for _, f := range known.Findings {
		if f.Property == c.Prop {
			kf = append(kf, f.Signature+": "+f.What)
		}
	}
	cov["known_findings_listed"] = kf
	ev := map[string]interface{}{
		"property_id": c.Prop,
		"tier":        c.Tier,
		"seed":        c.Seed,
		"level":       levelOf[c.Prop],
		"coverage":    cov,
		"assumptions": []string{
			"a clean batch is evidence, not proof: schedules, histories and faults are sampled from VERIF_SEED, not enumerated",
			"Go map iteration order is not controllable; results are compared in canonical form only",
			"oracles that use frugal itself as reference (fresh-process baseline, sequential re-execution) cannot see a result that is wrong in every context",
			"the instrumented copy differs from /repo only by import paths of sync / sync/atomic, inserted Yield calls and, in knob builds, named integer constants",
		},
		"wall_s":     wall,
		"violations": nviol,
	}
	dir := filepath.Join(verifDir, "evidence")
	os.MkdirAll(dir, 0o755)
	b, err := json.MarshalIndent(ev, "", " ")
	if err != nil {
		return err
	}
	return os.WriteFile(filepath.Join(dir, c.Prop+".json"), b, 0o644)
}
