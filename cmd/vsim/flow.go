package main

import (
	"bytes"
	"encoding/json"
	"fmt"
	"os"
	"os/exec"
	"path/filepath"
	"sort"
	"strings"
	"sync"
	"time"
)

func runChildOut(b *Build, args ...string) string {
	a := append([]string{"-corpus", fmt.Sprint(b.Cfg.Corpus)}, args...)
	cmd := exec.Command(b.Bin, a...)
	var out bytes.Buffer
	cmd.Stdout = &out
	cmd.Run()
	return out.String()
}

// ---------------------------------------------------------------- evidence aggregation

type Agg struct {
	mu             sync.Mutex
	Runs           int
	Crashed        int
	Evals          int64
	Ops            int64
	Steps          int64
	Switches       int64
	GCs            int64
	Tags           map[string]int
	SchedHashes    map[string]bool
	SchedNontriv   map[string]bool
	FirstUse       map[string]bool
	Probes         []int64
	SiteHits       []int64
	FaultFired     map[string]int
	FaultReached   map[string]int
	Verdicts       map[string]int
	Events         map[string]int
	Pool           map[string]int64
	Counters       map[string]int64
	BaselineRuns   int
	Rounds         int64
	BaselineCached int
	DigestCompared int64
	Samples        []interface{}
	ByLabel        map[string]int
	DetPairs       int
	DetMismatch    int
	RaceReports    int
	RaceHarness    int
	Wall           map[string]float64
	MaxLive        int64
}

func newAgg() *Agg {
	return &Agg{Tags: map[string]int{}, SchedHashes: map[string]bool{}, SchedNontriv: map[string]bool{}, FirstUse: map[string]bool{},
		FaultFired: map[string]int{}, FaultReached: map[string]int{}, Verdicts: map[string]int{}, Events: map[string]int{}, Pool: map[string]int64{},
		Counters: map[string]int64{}, ByLabel: map[string]int{}, Wall: map[string]float64{}}
}

func num(v interface{}) int64 {
	switch x := v.(type) {
	case float64:
		return int64(x)
	case int:
		return int64(x)
	case int64:
		return x
	}
	return 0
}

func (a *Agg) add(prop, label string, rr *RunResult) {
	a.mu.Lock()
	defer a.mu.Unlock()
	a.Runs++
	a.ByLabel[label]++
	if rr.Crashed {
		a.Crashed++
	}
	for _, e := range rr.Ends {
		a.Ops++
		if e.Tag != "" {
			a.Tags[e.Tag]++
		}
	}
	if w := rr.Wall.Seconds(); w > a.Wall["slowest_child_s"] {
		a.Wall["slowest_child_s"] = w
	}
	a.RaceReports += len(rr.Races)
	for _, r := range rr.Races {
		if !r.InFrugal {
			a.RaceHarness++
		}
	}
	end := rr.End
	if end == nil {
		return
	}
	a.Evals += num(end["evals"])
	a.Rounds += num(end["rounds"])
	a.Steps += num(end["steps"])
	a.Switches += num(end["switches"])
	a.GCs += num(end["gcs"])
	if m := num(end["max_live"]); m > a.MaxLive {
		a.MaxLive = m
	}
	for _, k := range []string{"dec_ok", "dec_err", "enc_ok", "enc_err", "size_ok", "size_panic", "legacy", "extents", "sweeps", "blocked_acq", "ext_handoffs"} {
		a.Counters[k] += num(end[k])
	}
	if h, ok := end["sched_hash"].(string); ok {
		a.SchedHashes[h] = true
		if pr, ok := end["probes"].([]interface{}); ok && len(pr) > 1 && num(end["switches"]) > 0 && (num(pr[0]) > 0 || num(pr[1]) > 0 || num(pr[2]) > 0) {
			a.SchedNontriv[h] = true
		}
	}
	if fu, ok := end["first_use"].([]interface{}); ok {
		var s []string
		for _, x := range fu {
			s = append(s, fmt.Sprint(x))
		}
		a.FirstUse[strings.Join(s, ",")] = true
	}
	addArr := func(dst *[]int64, v interface{}) {
		arr, ok := v.([]interface{})
		if !ok {
			return
		}
		for len(*dst) < len(arr) {
			*dst = append(*dst, 0)
		}
		for i, x := range arr {
			(*dst)[i] += num(x)
		}
	}
	addArr(&a.Probes, end["probes"])
	addArr(&a.SiteHits, end["site_hits"])
	addMap := func(dst map[string]int, v interface{}) {
		if m, ok := v.(map[string]interface{}); ok {
			for k, x := range m {
				dst[k] += int(num(x))
			}
		}
	}
	addMap(a.FaultFired, end["fault_fired"])
	addMap(a.FaultReached, end["fault_reached"])
	addMap(a.Verdicts, end["verdicts"])
	addMap(a.Events, end["events"])
	if m, ok := end["pool"].(map[string]interface{}); ok {
		for k, x := range m {
			if k == "MaxOut" {
				if num(x) > a.Pool[k] {
					a.Pool[k] = num(x)
				}
			} else {
				a.Pool[k] += num(x)
			}
		}
	}
}

// ---------------------------------------------------------------- plans per property

var validEnvs = [][]string{
	nil,
	{"FRUGAL_MAX_INLINE_DEPTH=2"},
	{"FRUGAL_MAX_INLINE_DEPTH=3", "FRUGAL_MAX_INLINE_IL_SIZE=257"},
	{"FRUGAL_MAX_INLINE_DEPTH=1000000"},
	{"FRUGAL_MAX_INLINE_IL_SIZE=9223372036854775807"},
	{"FRUGAL_MAX_INLINE_DEPTH=0x10", "FRUGAL_MAX_INLINE_IL_SIZE=0x7fff"},
	{"FRUGAL_MAX_INLINE_DEPTH=0o17"},
	{"FRUGAL_MAX_INLINE_DEPTH=0b101", "FRUGAL_MAX_INLINE_IL_SIZE=1_000_000"},
	{"FRUGAL_MAX_INLINE_IL_SIZE=50000"},
	{"FRUGAL_MAX_INLINE_DEPTH=017"},
}

func (c *Checker) plans() []runPlan {
	corp := c.Seed
	tc := ""
	switch c.Prop {
	case "C08":
		return []runPlan{
			{Build: BuildCfg{Corpus: corp, Race: true}, Runs: 3, Label: "race"},
			{Build: BuildCfg{Corpus: corp, Race: true, Knobs: map[string]string{"mapStructDescBuckets": "0xf"}}, Runs: 2, Label: "race+buckets=0xf"},
			{Build: BuildCfg{Corpus: corp, Race: true, Knobs: map[string]string{"mapStructDescBuckets": "0"}}, Runs: 1, Label: "race+buckets=0"},
			{Build: BuildCfg{Corpus: corp}, Runs: 6, Label: "plain"},
			{Build: BuildCfg{Corpus: corp, Knobs: map[string]string{"mapStructDescBuckets": "0"}}, Runs: 3, Label: "plain+buckets=0"},
			// statement-granularity yields: a switch may fall between any two statements (e.g. between reading and
			// advancing a shared cursor), not only at function/loop heads and sync operations
			{Build: BuildCfg{Corpus: corp, Stmt: true}, Runs: 2, Label: "plain+stmt-yields"},
		}
	case "C16":
		return []runPlan{
			{Build: BuildCfg{Corpus: corp, Race: true}, Runs: 3, Label: "race"},
			{Build: BuildCfg{Corpus: corp}, Runs: 5, Label: "plain"},
		}
	case "C17":
		var ps []runPlan
		for i, e := range validEnvs {
			ps = append(ps, runPlan{Build: BuildCfg{Corpus: corp, Toolchain: tc}, Env: e, Runs: 1, Label: fmt.Sprintf("env%d", i)})
		}
		// race build: a legacy control that touches codec state while other tasks use the codec shows up as a race
		// with a legacy entry point on one of the two stacks
		ps = append(ps, runPlan{Build: BuildCfg{Corpus: corp, Race: true}, Env: validEnvs[2], Runs: 5, Label: "race+env2"})
		return ps
	case "C06":
		return []runPlan{
			{Build: BuildCfg{Corpus: corp}, Runs: 2, Label: "plain"},
			{Build: BuildCfg{Corpus: corp, Stmt: true, Knobs: map[string]string{"defaultDecoderMemSize": "256"}}, Runs: 3, Label: "stmt-yields+block=256"},
			// statement-granularity yields: two decodes that (wrongly) share an allocator only collide if a switch
			// falls between reading and advancing its cursor
			{Build: BuildCfg{Corpus: corp, Stmt: true}, Runs: 5, Label: "plain+stmt-yields"},
		}
	}
	return []runPlan{{Build: BuildCfg{Corpus: corp}, Runs: 8, Label: "plain"}}
}

// thorough tier: more corpora, the second toolchain, more knob builds.
func (c *Checker) thoroughPlans() []runPlan {
	base := c.plans()
	var out []runPlan
	out = append(out, base...)
	for k := uint64(1); k <= 3; k++ {
		corp := c.Seed*1000 + k
		for _, p := range base {
			q := p
			q.Build.Corpus = corp
			q.Label = fmt.Sprintf("%s/corpus%d", p.Label, corp)
			out = append(out, q)
		}
	}
	for _, p := range base {
		q := p
		q.Build.Toolchain = "go1.26.8"
		q.Label = p.Label + "/go1.26.8"
		out = append(out, q)
	}
	if c.Prop == "C06" || c.Prop == "C07" {
		out = append(out, runPlan{Build: BuildCfg{Corpus: c.Seed, Knobs: map[string]string{"defaultDecoderMemSize": "128"}}, Runs: 3, Label: "plain+block=128"})
	}
	if c.Prop == "C06" {
		// the race build carries checkptr instrumentation (quiet on the unchanged tree): unsafe pointer arithmetic
		// that leaves its allocation, or integers converted back to pointers, kill the child
		out = append(out, runPlan{Build: BuildCfg{Corpus: c.Seed, Race: true}, Runs: 2, Label: "race+checkptr"})
	}
	if c.Prop == "C08" {
		out = append(out, runPlan{Build: BuildCfg{Corpus: c.Seed, Race: true, Stmt: true}, Runs: 2, Label: "race+stmt-yields"})
	}
	return out
}

// ---------------------------------------------------------------- the check

func runCheck(prop, tier string, seed uint64, budget time.Duration, maxRuns int) int {
	c := &Checker{Prop: prop, Tier: tier, Seed: seed, Start: time.Now(), Workers: 16, builds: map[string]*Build{}, baseline: map[string]*Rec{}, agg: newAgg()}
	c.Deadline = c.Start.Add(budget)
	if tier == "quick" && digestProps(prop) {
		c.Bank = 300 // a prefix of the bank: fresh-process baselines are shared by all histories of the run
	}
	fmt.Printf("VERIF_SEED=%d property=%s tier=%s budget=%s\n", seed, prop, tier, budget)
	known := loadKnown()
	plans := c.plans()
	if tier == "thorough" {
		plans = c.thoroughPlans()
	}
	var err error
	if c.plain, err = c.plainFor(seed); err != nil {
		fmt.Println("MACHINERY: build failed:", err)
		return 2
	}
	tBuild := time.Now()
	for i := range plans {
		if _, err := c.build(plans[i].Build); err != nil {
			fmt.Println("MACHINERY: build failed:", err)
			return 2
		}
	}
	c.agg.Wall["build_s"] = time.Since(tBuild).Seconds() + c.plain.Secs
	// the time box starts after the builds
	c.Deadline = time.Now().Add(budget)

	type job struct {
		plan runPlan
		run  int
	}
	next := 0
	sigSeen := map[string]*Violation{}
	sigCount := map[string]int{}
	var machineErr error
	round := 0
	for time.Now().Before(c.Deadline) && next < maxRuns && machineErr == nil {
		// jobs of the plans are interleaved, so that a time box that closes early has visited every configuration
		var jobs []job
		for k := 0; ; k++ {
			any := false
			for _, p := range plans {
				if k < p.Runs*4 {
					jobs = append(jobs, job{p, next})
					next++
					any = true
				}
			}
			if !any {
				break
			}
		}
		round++
		var mu sync.Mutex
		parallel(c.Workers, len(jobs), func(i int) {
			if time.Now().After(c.Deadline) {
				return
			}
			j := jobs[i]
			b, _ := c.build(j.plan.Build)
			rr, vs, err := c.evaluate(evalOpts{Build: b, Args: c.runArgs(j.run), Env: j.plan.Env})
			c.agg.add(prop, j.plan.Label, rr)
			mu.Lock()
			defer mu.Unlock()
			if err != nil {
				machineErr = fmt.Errorf("run %d (%s): %w", j.run, j.plan.Label, err)
				return
			}
			if len(c.agg.Samples) < 3 && rr.Spec != nil && len(rr.Ends) > 0 {
				c.agg.Samples = append(c.agg.Samples, c.sampleOf(b, rr, j.plan.Label))
			}
			for k := range vs {
				v := vs[k]
				sigCount[v.Sig]++
				if _, ok := sigSeen[v.Sig]; !ok {
					vv := v
					sigSeen[v.Sig] = &vv
				}
			}
		})
		if len(sigSeen) > 0 && tier == "quick" {
			break // report what was found; no point in burning the time box
		}
	}
	c.agg.Wall["explore_s"] = time.Since(tBuild).Seconds()
	if machineErr != nil {
		fmt.Println("MACHINERY:", machineErr)
		return 2
	}
	// determinism spot check: two runs re-executed, journals must be identical. A mismatch on a tree that shows no
	// violation is machinery trouble; together with violations it is a symptom of them (e.g. memory corruption).
	if err := c.determinismSpot(plans[0], 2); err != nil {
		if len(sigSeen) == 0 {
			fmt.Println("MACHINERY: determinism:", err)
			return 2
		}
		fmt.Println("NOTE: results are not reproducible on this tree (reported together with the violations below):", tail(err.Error(), 200))
	}

	// violations: known findings, minimise, replay, report
	var sigs []string
	for s := range sigSeen {
		sigs = append(sigs, s)
	}
	sort.Strings(sigs)
	exit := 0
	reported := 0
	unreproduced := 0
	knownSeen := map[string]bool{}
	for _, s := range sigs {
		v := sigSeen[s]
		if what, ok := known.match(v); ok {
			if !knownSeen[what] {
				knownSeen[what] = true
				fmt.Printf("KNOWN-FINDING: property=%s %s (signature %s, seen %d times)\n", v.Prop, what, v.Sig, sigCount[s])
			}
			continue
		}
		if reported >= 3 {
			exit = 1
			fmt.Printf("further violation (not minimised): %s x%d\n", s, sigCount[s])
			continue
		}
		path := c.reportViolation(v, sigCount[s])
		if path == "" {
			unreproduced++
			continue
		}
		reported++
		exit = 1
		fmt.Printf("VIOLATION property=%s replay=%s\n", v.Prop, path)
	}
	for i, n := range c.notes {
		if i < 12 {
			fmt.Println(n)
		}
	}
	if len(c.notes) > 12 {
		fmt.Printf("(%d more notes)\n", len(c.notes)-12)
	}
	c.saveBaselineCaches()
	if err := c.writeEvidence(plans, len(sigSeen), known); err != nil {
		fmt.Println("MACHINERY: evidence:", err)
		return 2
	}
	fmt.Printf("%s %s: %d runs, %d evaluations, %d distinct non-trivial, %d violations signatures, %.1fs\n", prop, tier, c.agg.Runs, c.evaluations(), c.distinct(), len(sigSeen), time.Since(c.Start).Seconds())
	return exit
}

func (c *Checker) runArgs(run int) []string {
	a := []string{"-prof", c.Prop, "-seed", fmt.Sprint(c.Seed), "-run", fmt.Sprint(run)}
	if c.Bank > 0 {
		a = append(a, "-bank", fmt.Sprint(c.Bank))
	}
	return a
}

func (c *Checker) sampleOf(b *Build, rr *RunResult, label string) interface{} {
	var ops []string
	for i, e := range rr.Ends {
		if i >= 5 {
			break
		}
		ops = append(ops, fmt.Sprintf("%s -> cls=%s n=%d", c.describeOp(b, e.Op), e.Cls, e.N))
	}
	s := map[string]interface{}{"configuration": label, "run": rr.Spec.Run, "tasks": rr.Spec.Tasks, "strategy": rr.Spec.Sched.Strategy, "pool": rr.Spec.Pool,
		"history_length": len(rr.Spec.Hist), "first_operations": ops}
	if rr.End != nil {
		s["steps"], s["switches"], s["schedule_hash"] = rr.End["steps"], rr.End["switches"], rr.End["sched_hash"]
	}
	return s
}

// determinismSpot re-executes n runs and requires identical journals (a mismatch is machinery trouble, never a violation).
func (c *Checker) determinismSpot(p runPlan, n int) error {
	b, err := c.build(p.Build)
	if err != nil {
		return err
	}
	for i := 0; i < n; i++ {
		args := c.runArgs(i)
		a := runChild(ChildOpts{Build: b, Args: args, Env: append([]string{"GOMAXPROCS=1"}, p.Env...)})
		d := runChild(ChildOpts{Build: b, Args: args, Env: append([]string{"GOMAXPROCS=8"}, p.Env...)})
		c.agg.DetPairs++
		if extHandoffs(a)+extHandoffs(d) > 0 {
			// a task blocked in an operation the simulator does not schedule (channel, real lock) and the token was
			// taken from it on a wall-clock basis: such a run is timing-dependent by construction
			c.note(fmt.Sprintf("NOTE run %d of %s: the code under test blocks in operations the simulator does not schedule; the run is timing-dependent and not compared", i, p.Label))
			continue
		}
		if ja, jd := journalKey(a), journalKey(d); ja != jd {
			c.agg.DetMismatch++
			if resultKey(a) == resultKey(d) {
				// the same results, another step count: the code under test consults something the simulator does not
				// own (e.g. it ranges over a Go map and leaves early). Replays may then need several attempts.
				c.note(fmt.Sprintf("NOTE run %d of %s: results reproduce, the step count does not", i, p.Label))
				continue
			}
			return fmt.Errorf("run %d of %s is not reproducible:\n%s\nvs\n%s", i, p.Label, tail(ja, 600), tail(jd, 600))
		}
	}
	return nil
}

func extHandoffs(rr *RunResult) float64 {
	if rr == nil || rr.End == nil {
		return 0
	}
	v, _ := rr.End["ext_handoffs"].(float64)
	return v
}

// resultKey is the journal without schedule information: operations and their results.
func resultKey(rr *RunResult) string {
	var ks []string
	for _, e := range rr.Ends {
		ks = append(ks, fmt.Sprintf("%d:%d:%s:%s", e.Slot, e.Op, e.Cls, e.D))
	}
	sort.Strings(ks)
	for _, v := range rr.Viols {
		ks = append(ks, "V:"+v.Sig)
	}
	if rr.Crashed {
		ks = append(ks, "CRASHED")
	}
	return strings.Join(ks, ";")
}

// journalKey is the canonical event log: operations, digests and the schedule hash.
func journalKey(rr *RunResult) string {
	var sb strings.Builder
	ends := rr.Ends
	if rr.Spec != nil && rr.Spec.Pool == "real" && rr.Spec.Tasks > 1 {
		// (see below: with the runtime's own pool the switch points of a multi-task run may move, and with them the
		// order in which the tasks' operations complete: the results are compared by slot, not by completion order)
		ends = append([]Rec(nil), ends...)
		sort.SliceStable(ends, func(i, j int) bool { return ends[i].Slot < ends[j].Slot })
	}
	for _, e := range ends {
		fmt.Fprintf(&sb, "%d:%d:%s:%s;", e.Slot, e.Op, e.Cls, e.D)
	}
	for _, v := range rr.Viols {
		fmt.Fprintf(&sb, "V:%s;", v.Sig)
	}
	if rr.End != nil {
		if rr.Spec != nil && rr.Spec.Pool == "real" {
			// fidelity runs delegate to the runtime's sync.Pool, whose refills are not ours to decide: step counts (and
			// with them the points at which a multi-task schedule switches) may differ; results may not
			sb.WriteString("pool=real")
		} else {
			fmt.Fprintf(&sb, "steps=%v sw=%v hash=%v", rr.End["steps"], rr.End["switches"], rr.End["sched_hash"])
		}
	}
	if rr.Crashed {
		sb.WriteString(" CRASHED")
	}
	return sb.String()
}

// ---------------------------------------------------------------- minimisation and replay files

type ReplayFile struct {
	V          int      `json:"v"`
	Property   string   `json:"property"`
	Signature  string   `json:"signature"`
	Message    string   `json:"message"`
	Kind       string   `json:"kind"`
	VerifSeed  uint64   `json:"verif_seed"`
	Build      BuildCfg `json:"build"`
	Env        []string `json:"env,omitempty"`
	Spec       *RunSpec `json:"spec"`
	Ops        []string `json:"operations"`
	Minimised  string   `json:"minimised_from"`
	Reproduced string   `json:"reproduced"`
	Seen       int      `json:"seen_in_runs"`
	Extra      string   `json:"adjudication,omitempty"`
}

func (c *Checker) hasSig(o evalOpts, sig string) bool {
	_, vs, err := c.evaluate(o)
	if err != nil {
		return false
	}
	for _, v := range vs {
		if v.Sig == sig {
			return true
		}
	}
	return false
}

func (c *Checker) reportViolation(v *Violation, seen int) string {
	b, _ := c.build(v.Build)
	spec := *v.Spec
	orig := len(spec.Hist)
	minDeadline := time.Now().Add(45 * time.Second)
	if c.minBudgetEnd.IsZero() {
		c.minBudgetEnd = time.Now().Add(120 * time.Second) // all signatures together
	}
	if minDeadline.After(c.minBudgetEnd) {
		minDeadline = c.minBudgetEnd
	}
	try := func(s *RunSpec) bool {
		if time.Now().After(minDeadline) {
			return false
		}
		return c.hasSig(evalOpts{Build: b, Spec: s, Env: v.Env}, v.Sig)
	}
	// 1. does the explicit specification reproduce at all?
	if try(&spec) {
		// 2. cut after the violating operation (single-task histories only: order is the history)
		if spec.Tasks == 1 && v.Slot >= 0 {
			for i, st := range spec.Hist {
				if st.Slot == v.Slot {
					cut := spec
					cut.Hist = append([]Step(nil), spec.Hist[:i+1]...)
					if try(&cut) {
						spec = cut
					}
					break
				}
			}
		}
		// 3. ddmin over the steps
		n := 2
		for len(spec.Hist) >= 2 && time.Now().Before(minDeadline) {
			chunk := (len(spec.Hist) + n - 1) / n
			reduced := false
			for start := 0; start < len(spec.Hist); start += chunk {
				end := start + chunk
				if end > len(spec.Hist) {
					end = len(spec.Hist)
				}
				cand := spec
				cand.Hist = append(append([]Step(nil), spec.Hist[:start]...), spec.Hist[end:]...)
				if len(cand.Hist) == 0 {
					continue
				}
				if try(&cand) {
					spec = cand
					if n > 2 {
						n--
					}
					reduced = true
					break
				}
			}
			if !reduced {
				if chunk <= 1 {
					break
				}
				n *= 2
				if n > len(spec.Hist) {
					n = len(spec.Hist)
				}
			}
		}
		// 4. fewer tasks: fold everything onto the tasks that remain
		if spec.Tasks > 1 {
			used := map[int]bool{}
			for _, st := range spec.Hist {
				used[st.Task] = true
			}
			if len(used) < spec.Tasks {
				cand := spec
				remap := map[int]int{}
				for _, st := range spec.Hist {
					if _, ok := remap[st.Task]; !ok {
						remap[st.Task] = len(remap)
					}
				}
				cand.Hist = nil
				for _, st := range spec.Hist {
					st.Task = remap[st.Task]
					cand.Hist = append(cand.Hist, st)
				}
				cand.Tasks = len(remap)
				var sa []int64
				for old := 0; old < spec.Tasks; old++ {
					if _, ok := remap[old]; ok && old < len(spec.Sched.StartAt) {
						sa = append(sa, spec.Sched.StartAt[old])
					}
				}
				cand.Sched.StartAt = sa
				if try(&cand) {
					spec = cand
				}
			}
		}
	}
	// replay the minimised specification in fresh processes
	ok := 0
	for i := 0; i < 3; i++ {
		if c.hasSig(evalOpts{Build: b, Spec: &spec, Env: v.Env}, v.Sig) {
			ok++
		}
	}
	if wallClockSig(v.Sig) && ok > 0 && ok < 3 {
		// a verdict that rests on the wall-clock watchdog is the only one that the load of the machine can produce:
		// an operation that really does not return does not return in any replay
		fmt.Printf("NOT REPRODUCED: %s (a wall-clock verdict) occurred in %d of 3 replays of the same specification; an operation that does not return fails every replay, so this was the load of the machine; not reported as a violation\n", v.Sig, ok)
		return ""
	}
	if ok == 0 {
		// neither the minimised nor the original specification shows it again: one seed is one execution here, so
		// what does not replay at all was the environment (e.g. the wall-clock watchdog on an overloaded machine)
		spec = *v.Spec
		for i := 0; i < 2 && ok == 0; i++ {
			if c.hasSig(evalOpts{Build: b, Spec: &spec, Env: v.Env}, v.Sig) {
				ok++
			}
		}
		if ok == 0 {
			fmt.Printf("NOT REPRODUCED: %s was observed once and does not occur in 5 replays of the same specification; not reported as a violation\n%s\n", v.Sig, tail(v.Msg, 600))
			return ""
		}
	}
	rf := ReplayFile{V: 1, Property: v.Prop, Signature: v.Sig, Message: v.Msg, Kind: v.Kind, VerifSeed: c.Seed, Build: v.Build, Env: v.Env, Spec: &spec,
		Minimised: fmt.Sprintf("%d steps -> %d steps", orig, len(spec.Hist)), Reproduced: fmt.Sprintf("%d/3", ok), Seen: seen, Extra: v.Extra}
	for _, st := range spec.Hist {
		d := st.Ev
		if st.Ev == "" || st.Ev == "shared" {
			d = c.describeOp(b, st.Op)
		}
		rf.Ops = append(rf.Ops, fmt.Sprintf("slot %d task %d: %s", st.Slot, st.Task, d))
	}
	dir := filepath.Join(verifDir, "replays")
	os.MkdirAll(dir, 0o755)
	name := fmt.Sprintf("%s-%s-seed%d.json", v.Prop, sanitize(v.Sig), c.Seed)
	path := filepath.Join(dir, name)
	jb, _ := json.MarshalIndent(rf, "", " ")
	os.WriteFile(path, jb, 0o644)
	fmt.Printf("--- violation %s (seen in %d runs; %s; replay reproduced %d/3)\n%s\n", v.Sig, seen, rf.Minimised, ok, tail(v.Msg, 1800))
	for _, o := range rf.Ops {
		fmt.Println("   ", o)
	}
	return path
}

// wallClockSig: verdicts decided by the wall-clock watchdog (every other verdict is a function of the seed).
func wallClockSig(sig string) bool {
	return strings.HasSuffix(sig, "/hang") || strings.HasSuffix(sig, "/hang-depends-on-context") || strings.HasSuffix(sig, "/no-progress/timeout") ||
		strings.HasSuffix(sig, "/blocked-outside-scheduler")
}

func sanitize(s string) string {
	var b strings.Builder
	for _, r := range s {
		switch {
		case r >= 'a' && r <= 'z', r >= 'A' && r <= 'Z', r >= '0' && r <= '9', r == '-', r == '_':
			b.WriteRune(r)
		default:
			b.WriteByte('_')
		}
	}
	x := b.String()
	if len(x) > 90 {
		x = x[:90]
	}
	return x
}

// runReplay re-runs a replay file against /repo's current tree.
func runReplay(path string) int {
	jb, err := os.ReadFile(path)
	if err != nil {
		fmt.Println("MACHINERY:", err)
		return 2
	}
	var rf ReplayFile
	if err := json.Unmarshal(jb, &rf); err != nil {
		fmt.Println("MACHINERY:", err)
		return 2
	}
	c := &Checker{Prop: rf.Property, Tier: "quick", Seed: rf.VerifSeed, Start: time.Now(), Workers: 16, builds: map[string]*Build{}, baseline: map[string]*Rec{}, agg: newAgg()}
	c.Deadline = time.Now().Add(10 * time.Minute)
	if c.plain, err = c.plainFor(rf.Spec.Corpus); err != nil {
		fmt.Println("MACHINERY: build failed:", err)
		return 2
	}
	b, err := c.build(rf.Build)
	if err != nil {
		fmt.Println("MACHINERY: build failed:", err)
		return 2
	}
	rr, vs, err := c.evaluate(evalOpts{Build: b, Spec: rf.Spec, Env: rf.Env})
	if err != nil {
		fmt.Println("MACHINERY:", err)
		return 2
	}
	fmt.Printf("replayed %d steps (%d operations finished, crashed=%v)\n", len(rf.Spec.Hist), len(rr.Ends), rr.Crashed)
	for _, o := range rf.Ops {
		fmt.Println("   ", o)
	}
	hit := false
	for _, v := range vs {
		fmt.Printf("violation %s\n%s\n", v.Sig, tail(v.Msg, 2500))
		if v.Sig == rf.Signature {
			hit = true
		}
	}
	if hit {
		fmt.Printf("VIOLATION property=%s replay=%s\n", rf.Property, path)
		return 1
	}
	if len(vs) > 0 {
		fmt.Printf("VIOLATION property=%s replay=%s\n", rf.Property, path)
		fmt.Println("(a different signature than recorded)")
		return 1
	}
	fmt.Println("the recorded violation does not occur on the current tree")
	return 0
}
