package main

import (
	"crypto/sha256"
	"encoding/hex"
	"encoding/json"
	"fmt"
	"io"
	"os"
	"os/exec"
	"path/filepath"
	"sort"
	"strings"
	"time"

	"verif/internal/instrument"
)

// BuildCfg identifies one build of the simulated world.
type BuildCfg struct {
	Corpus    uint64
	Race      bool
	Toolchain string            // "go" (default toolchain) or "go1.26.8"
	Stmt      bool              // statement-granularity yields
	Knobs     map[string]string // tuning-knob rewrites
}

func (b BuildCfg) String() string {
	s := fmt.Sprintf("corpus=%d race=%v tc=%s stmt=%v", b.Corpus, b.Race, b.Toolchain, b.Stmt)
	var ks []string
	for k, v := range b.Knobs {
		ks = append(ks, k+"="+v)
	}
	sort.Strings(ks)
	return s + " knobs=" + strings.Join(ks, ",")
}

// Build is a built simulated world.
type Build struct {
	Cfg      BuildCfg
	Bin      string
	Sites    []instrument.Site
	Knobs    map[string]string
	KnobMiss []string
	Cached   bool
	Secs     float64
}

// repoDir is /repo: the checks registered in MANIFEST.json always build from its current working tree.
// (VERIF_REPO exists only for our own background sweeps over scratch copies, see DESIGN section 7.)
var repoDir = func() string {
	if d := os.Getenv("VERIF_REPO"); d != "" {
		return d
	}
	return "/repo"
}()

var verifDir = func() string {
	if d := os.Getenv("VERIF_DIR"); d != "" {
		return d
	}
	if wd, err := os.Getwd(); err == nil {
		if _, err := os.Stat(filepath.Join(wd, "payload", "verifharness")); err == nil {
			return wd
		}
	}
	return "/verif"
}()

func goEnv() []string {
	env := os.Environ()
	env = append(env, "GOFLAGS=-mod=mod", "GOPROXY=off", "GOSUMDB=off", "GOTOOLCHAIN=local", "GONOSUMDB=*", "GONOSUMCHECK=1", "GOWORK=off")
	return env
}

// hashTree hashes the files that determine a build.
func hashTree(h io.Writer, root string, skip func(rel string, d os.FileInfo) bool) error {
	var files []string
	err := filepath.Walk(root, func(p string, info os.FileInfo, err error) error {
		if err != nil {
			return err
		}
		rel, _ := filepath.Rel(root, p)
		if skip != nil && skip(rel, info) {
			if info.IsDir() {
				return filepath.SkipDir
			}
			return nil
		}
		if !info.IsDir() {
			files = append(files, p)
		}
		return nil
	})
	if err != nil {
		return err
	}
	sort.Strings(files)
	for _, f := range files {
		rel, _ := filepath.Rel(root, f)
		b, err := os.ReadFile(f)
		if err != nil {
			return err
		}
		fmt.Fprintf(h, "%s %d\n", rel, len(b))
		h.Write(b)
	}
	return nil
}

func skipRepo(rel string, d os.FileInfo) bool {
	if d.IsDir() {
		switch rel {
		case ".git", "tests", "fuzz", "licenses", ".github":
			return true
		}
		return false
	}
	return strings.HasSuffix(rel, "_test.go") || !(strings.HasSuffix(rel, ".go") || rel == "go.mod" || rel == "go.sum")
}

func buildKey(cfg BuildCfg) (string, error) {
	h := sha256.New()
	fmt.Fprintln(h, cfg.String())
	if err := hashTree(h, repoDir, skipRepo); err != nil {
		return "", err
	}
	if err := hashTree(h, filepath.Join(verifDir, "payload"), nil); err != nil {
		return "", err
	}
	if err := hashTree(h, filepath.Join(verifDir, "internal", "instrument"), nil); err != nil {
		return "", err
	}
	return hex.EncodeToString(h.Sum(nil))[:24], nil
}

func copyTree(src, dst string, skip func(rel string, d os.FileInfo) bool) error {
	return filepath.Walk(src, func(p string, info os.FileInfo, err error) error {
		if err != nil {
			return err
		}
		rel, _ := filepath.Rel(src, p)
		if rel == "." {
			return os.MkdirAll(dst, 0o755)
		}
		if skip != nil && skip(rel, info) {
			if info.IsDir() {
				return filepath.SkipDir
			}
			return nil
		}
		if info.IsDir() {
			return os.MkdirAll(filepath.Join(dst, rel), 0o755)
		}
		b, err := os.ReadFile(p)
		if err != nil {
			return err
		}
		return os.WriteFile(filepath.Join(dst, rel), b, 0o644)
	})
}

type buildMeta struct {
	Cfg      string
	Sites    []instrument.Site
	Knobs    map[string]string
	KnobMiss []string
}

// GetBuild returns the simulated world for cfg built from /repo's current working tree, from cache if
// an identical (tree, payload, config) build exists.
func GetBuild(cfg BuildCfg) (*Build, error) {
	if cfg.Toolchain == "" {
		cfg.Toolchain = "go"
	}
	t0 := time.Now()
	key, err := buildKey(cfg)
	if err != nil {
		return nil, err
	}
	cacheDir := filepath.Join(verifDir, ".cache", "builds")
	os.MkdirAll(cacheDir, 0o755)
	bin := filepath.Join(cacheDir, key+".sim")
	metaPath := filepath.Join(cacheDir, key+".json")
	if mb, err := os.ReadFile(metaPath); err == nil {
		if _, err := os.Stat(bin); err == nil {
			var m buildMeta
			if json.Unmarshal(mb, &m) == nil {
				now := time.Now()
				os.Chtimes(bin, now, now)
				return &Build{Cfg: cfg, Bin: bin, Sites: m.Sites, Knobs: m.Knobs, KnobMiss: m.KnobMiss, Cached: true, Secs: time.Since(t0).Seconds()}, nil
			}
		}
	}
	scratch, err := os.MkdirTemp("", "vsim-build-")
	if err != nil {
		return nil, err
	}
	defer os.RemoveAll(scratch)
	mod := filepath.Join(scratch, "frugal")
	if err := copyTree(repoDir, mod, skipRepo); err != nil {
		return nil, fmt.Errorf("copy repo: %w", err)
	}
	ires, err := instrument.Tree(mod, instrument.Options{Stmt: cfg.Stmt, Knobs: cfg.Knobs})
	if err != nil {
		return nil, fmt.Errorf("instrument: %w", err)
	}
	if err := copyTree(filepath.Join(verifDir, "payload"), mod, func(rel string, d os.FileInfo) bool { return rel == "go.mod" }); err != nil {
		return nil, fmt.Errorf("overlay payload: %w", err)
	}
	run := func(name string, args ...string) error {
		cmd := exec.Command(name, args...)
		cmd.Dir = mod
		cmd.Env = goEnv()
		out, err := cmd.CombinedOutput()
		if err != nil {
			return fmt.Errorf("%s %s: %v\n%s", name, strings.Join(args, " "), err, tail(string(out), 6000))
		}
		return nil
	}
	gobin := cfg.Toolchain
	os.MkdirAll(filepath.Join(mod, "verifharness", "corpus"), 0o755) // (an empty directory is not in a git checkout)
	if err := run(gobin, "run", "./verifharness/cmd/gen", "-seed", fmt.Sprint(cfg.Corpus), "-o", "verifharness/corpus/types_gen.go"); err != nil {
		return nil, err
	}
	args := []string{"build", "-o", bin + ".tmp"}
	if cfg.Race {
		// the harness itself is not race-instrumented: tasks are serialised by the token, and harness bookkeeping
		// shared between tasks must neither be reported nor add happens-before edges that could hide frugal's own races
		args = append(args, "-race", "-gcflags=github.com/cloudwego/frugal/verifharness/...=-race=false")
	}
	args = append(args, "./verifharness/cmd/sim")
	if err := run(gobin, args...); err != nil {
		return nil, err
	}
	if err := os.Rename(bin+".tmp", bin); err != nil {
		return nil, err
	}
	m := buildMeta{Cfg: cfg.String(), Sites: ires.Sites, Knobs: ires.KnobsApplied, KnobMiss: ires.KnobsMissing}
	mb, _ := json.Marshal(m)
	os.WriteFile(metaPath, mb, 0o644)
	pruneCache(cacheDir, 48)
	return &Build{Cfg: cfg, Bin: bin, Sites: ires.Sites, Knobs: ires.KnobsApplied, KnobMiss: ires.KnobsMissing, Secs: time.Since(t0).Seconds()}, nil
}

// pruneCache keeps the most recently used builds only (disk space is limited).
func pruneCache(dir string, keep int) {
	ents, err := os.ReadDir(dir)
	if err != nil {
		return
	}
	type ent struct {
		name string
		mod  time.Time
	}
	var bins []ent
	for _, e := range ents {
		if strings.HasSuffix(e.Name(), ".sim") {
			if info, err := e.Info(); err == nil {
				bins = append(bins, ent{e.Name(), info.ModTime()})
			}
		}
	}
	sort.Slice(bins, func(i, j int) bool { return bins[i].mod.After(bins[j].mod) })
	for i := keep; i < len(bins); i++ {
		base := strings.TrimSuffix(bins[i].name, ".sim")
		os.Remove(filepath.Join(dir, bins[i].name))
		os.Remove(filepath.Join(dir, base+".json"))
	}
}

func tail(s string, n int) string {
	if len(s) > n {
		return "..." + s[len(s)-n:]
	}
	return s
}
