package main

import (
	"bufio"
	"bytes"
	"context"
	"encoding/json"
	"fmt"
	"os"
	"os/exec"
	"sort"
	"strings"
	"sync"
	"syscall"
	"time"
)

// Step / RunSpec mirror the child's types (payload/verifharness/world/spec.go).
type Step struct {
	Slot  int    `json:"slot"`
	Task  int    `json:"task"`
	Op    uint64 `json:"op"`
	Ev    string `json:"ev,omitempty"`
	Arg   int    `json:"arg,omitempty"`
	Round int    `json:"round,omitempty"`
}

type SchedSpec struct {
	Strategy string  `json:"strategy"`
	Den      int     `json:"den,omitempty"`
	PCTDepth int     `json:"pct_depth,omitempty"`
	StartAt  []int64 `json:"start_at,omitempty"`
	GCEvery  int64   `json:"gc_every,omitempty"`
	Switches []int64 `json:"switches,omitempty"`
}

type RunSpec struct {
	Prof    string    `json:"prof"`
	Corpus  uint64    `json:"corpus"`
	Seed    uint64    `json:"seed"`
	Run     int       `json:"run"`
	Tasks   int       `json:"tasks"`
	Pool    string    `json:"pool"`
	Hist    []Step    `json:"hist"`
	Sched   SchedSpec `json:"sched"`
	Single  bool      `json:"single,omitempty"`
	Rounds  int       `json:"rounds,omitempty"`
	NoGuard bool      `json:"no_guard,omitempty"`
}

// Rec mirrors the child's journal record.
type Rec struct {
	K     string                 `json:"k"`
	Slot  int                    `json:"slot,omitempty"`
	Task  int                    `json:"task,omitempty"`
	Op    uint64                 `json:"op,omitempty"`
	Ev    string                 `json:"ev,omitempty"`
	Step  int64                  `json:"step,omitempty"`
	Cls   string                 `json:"cls,omitempty"`
	N     int                    `json:"n,omitempty"`
	D     string                 `json:"d,omitempty"`
	Err   string                 `json:"err,omitempty"`
	Steps int64                  `json:"steps,omitempty"`
	Alloc uint64                 `json:"alloc,omitempty"`
	Evals int                    `json:"evals,omitempty"`
	Tag   string                 `json:"tag,omitempty"`
	Prop  string                 `json:"prop,omitempty"`
	Sig   string                 `json:"sig,omitempty"`
	Msg   string                 `json:"msg,omitempty"`
	Spec  *RunSpec               `json:"spec,omitempty"`
	End   map[string]interface{} `json:"end,omitempty"`
}

// RunResult is what the supervisor knows about one child.
type RunResult struct {
	Build    *Build
	Args     []string
	Env      []string
	Spec     *RunSpec
	Ends     []Rec // E records in completion order
	Viols    []Rec
	Notes    []Rec
	End      map[string]interface{}
	Crashed  bool
	ExitCode int
	Signal   string
	TimedOut bool
	InFlight *Rec // last B without E
	LastSub  *Rec // last "b" record (input in flight inside an enumerating operation)
	Stderr   string
	Races    []RaceReport
	Wall     time.Duration
	Machine  string // machinery trouble
}

// RaceReport is one ThreadSanitizer report.
type RaceReport struct {
	Text      string
	InFrugal  bool     // at least one of the two racing accesses is made by frugal's own code
	Accessors []string // innermost non-runtime frame of each access
	TopFrames []string
}

// ChildOpts configures one child process.
type ChildOpts struct {
	Build   *Build
	Args    []string // -prof .. -run .. etc
	Spec    *RunSpec // explicit spec (overrides derivation)
	Env     []string // extra environment
	Timeout time.Duration
}

// childSlots bounds the number of child processes alive at once (checks nest parallel phases).
var childSlots = make(chan struct{}, 5)

func runChild(o ChildOpts) *RunResult {
	childSlots <- struct{}{}
	defer func() { <-childSlots }()
	res := &RunResult{Build: o.Build, Args: o.Args, Env: o.Env}
	if o.Timeout == 0 {
		o.Timeout = 120 * time.Second
	}
	ctx, cancel := context.WithTimeout(context.Background(), o.Timeout)
	defer cancel()
	args := append([]string{"-corpus", fmt.Sprint(o.Build.Cfg.Corpus)}, o.Args...)
	var stdin []byte
	if o.Spec != nil {
		stdin, _ = json.Marshal(o.Spec)
		args = append(args, "-spec", "-")
	}
	if !o.Build.Cfg.Race {
		args = append(args, "-as-limit-mb", "16384")
	}
	cmd := exec.CommandContext(ctx, o.Build.Bin, args...)
	cmd.Stdin = bytes.NewReader(stdin)
	env := []string{"PATH=" + os.Getenv("PATH"), "HOME=" + os.Getenv("HOME"), "GOMAXPROCS=1", "GOTRACEBACK=single",
		"GORACE=atexit_sleep_ms=0 exitcode=0 history_size=2", "GODEBUG=clobberfree=1"}
	env = append(env, o.Env...)
	cmd.Env = env
	var stderr bytes.Buffer
	cmd.Stderr = &limitWriter{w: &stderr, n: 1 << 20}
	out, err := cmd.StdoutPipe()
	if err != nil {
		res.Machine = err.Error()
		return res
	}
	t0 := time.Now()
	if err := cmd.Start(); err != nil {
		res.Machine = "start: " + err.Error()
		return res
	}
	sc := bufio.NewScanner(out)
	sc.Buffer(make([]byte, 1<<20), 64<<20)
	open := map[int]*Rec{} // task -> open B
	for sc.Scan() {
		line := sc.Bytes()
		if len(line) == 0 || line[0] != '{' {
			continue
		}
		var r Rec
		if json.Unmarshal(line, &r) != nil {
			continue
		}
		switch r.K {
		case "spec":
			res.Spec = r.Spec
		case "B":
			rr := r
			open[r.Task] = &rr
			res.InFlight = &rr
		case "b":
			rr := r
			res.LastSub = &rr
		case "E":
			delete(open, r.Task)
			res.InFlight = nil
			for _, v := range open {
				res.InFlight = v
			}
			res.Ends = append(res.Ends, r)
		case "V":
			res.Viols = append(res.Viols, r)
		case "N":
			res.Notes = append(res.Notes, r)
		case "end":
			res.End = r.End
		}
	}
	werr := cmd.Wait()
	res.Wall = time.Since(t0)
	res.Stderr = stderr.String()
	if ctx.Err() == context.DeadlineExceeded {
		res.TimedOut = true
	}
	if werr != nil {
		if ee, ok := werr.(*exec.ExitError); ok {
			res.ExitCode = ee.ExitCode()
			if ws, ok := ee.Sys().(syscall.WaitStatus); ok && ws.Signaled() {
				res.Signal = ws.Signal().String()
			}
		} else {
			res.Machine = werr.Error()
		}
	}
	if strings.Contains(res.Stderr, "VERIFSIM-MACHINERY") {
		res.Machine = firstLineWith(res.Stderr, "VERIFSIM-MACHINERY")
	}
	if res.End == nil && res.Machine == "" {
		res.Crashed = true
	}
	if o.Build.Cfg.Race {
		res.Races = parseRaces(res.Stderr)
	}
	return res
}

type limitWriter struct {
	w *bytes.Buffer
	n int
}

func (l *limitWriter) Write(p []byte) (int, error) {
	if l.w.Len() < l.n {
		k := l.n - l.w.Len()
		if k > len(p) {
			k = len(p)
		}
		l.w.Write(p[:k])
	}
	return len(p), nil
}

func firstLineWith(s, sub string) string {
	for _, l := range strings.Split(s, "\n") {
		if strings.Contains(l, sub) {
			return l
		}
	}
	return ""
}

// crashSummary extracts the headline of a Go crash from stderr.
func crashSummary(stderr string) string {
	for _, l := range strings.Split(stderr, "\n") {
		if strings.HasPrefix(l, "fatal error:") || strings.HasPrefix(l, "panic:") || strings.HasPrefix(l, "runtime:") ||
			strings.Contains(l, "SIGSEGV") || strings.HasPrefix(l, "unexpected fault address") || strings.HasPrefix(l, "checkptr:") {
			return strings.TrimSpace(l)
		}
	}
	if len(stderr) > 200 {
		return stderr[:200]
	}
	return strings.TrimSpace(stderr)
}

func crashClass(r *RunResult) string {
	s := r.Stderr
	switch {
	case r.TimedOut:
		return "timeout"
	case strings.Contains(s, "stack overflow") || strings.Contains(s, "stack exceeds"):
		return "stack-overflow"
	case strings.Contains(s, "out of memory") || strings.Contains(s, "cannot allocate memory"):
		return "out-of-memory"
	case strings.Contains(s, "found bad pointer") || strings.Contains(s, "bad pointer in") || strings.Contains(s, "invalid pointer found"):
		return "gc-bad-pointer"
	case strings.Contains(s, "concurrent map"):
		return "concurrent-map"
	case strings.Contains(s, "checkptr:"):
		return "checkptr"
	case strings.Contains(s, "SIGSEGV") || strings.Contains(s, "unexpected fault address") || strings.Contains(s, "SIGBUS"):
		return "memory-fault"
	case strings.Contains(s, "panic:"):
		return "panic"
	case strings.Contains(s, "fatal error:"):
		return "fatal"
	}
	if r.Signal != "" {
		return "signal-" + r.Signal
	}
	return "died"
}

// parseRaces splits ThreadSanitizer output into reports and decides whether frugal's own code is involved.
func parseRaces(stderr string) []RaceReport {
	var out []RaceReport
	parts := strings.Split(stderr, "==================")
	for _, p := range parts {
		if !strings.Contains(p, "WARNING: DATA RACE") {
			continue
		}
		rr := RaceReport{Text: strings.TrimSpace(p)}
		// the two access stacks; the accessor of each is its innermost frame outside the Go runtime
		lines := strings.Split(p, "\n")
		inAccess, needAccessor := false, false
		for _, l := range lines {
			t := strings.TrimSpace(l)
			switch {
			case strings.HasPrefix(t, "Write at") || strings.HasPrefix(t, "Read at") || strings.HasPrefix(t, "Previous write at") ||
				strings.HasPrefix(t, "Previous read at") || strings.HasPrefix(t, "Atomic") || strings.HasPrefix(t, "Previous atomic"):
				inAccess, needAccessor = true, true
			case t == "":
				inAccess = false
			case strings.HasPrefix(t, "Goroutine ") || strings.HasPrefix(t, "Location"):
				inAccess = false
			default:
				if inAccess && !strings.HasPrefix(t, "/") && strings.Contains(t, "(") {
					fn := strings.TrimSuffix(t, "()")
					if len(rr.TopFrames) < 40 {
						rr.TopFrames = append(rr.TopFrames, fn)
					}
					if needAccessor && strings.HasPrefix(fn, "runtime.") && !runtimeMemHelper(fn) {
						// the access is made by the runtime for itself (e.g. its metrics tables), not on behalf of the
						// caller; frames above it may be stale, because the harness is not instrumented
						needAccessor = false
						rr.Accessors = append(rr.Accessors, fn)
					}
					if needAccessor && !strings.HasPrefix(fn, "runtime.") {
						needAccessor = false
						rr.Accessors = append(rr.Accessors, fn)
						if isFrugalFn(fn) {
							rr.InFrugal = true
						}
					}
				}
			}
		}
		out = append(out, rr)
	}
	return out
}

// runtimeMemHelper: runtime functions that touch memory on behalf of their caller (map, slice, string, copy helpers).
func runtimeMemHelper(fn string) bool {
	for _, p := range []string{"runtime.map", "runtime.growslice", "runtime.slicecopy", "runtime.memmove", "runtime.typedmemmove",
		"runtime.typedslicecopy", "runtime.makeslice", "runtime.slicebytetostring", "runtime.stringtoslicebyte", "runtime.concatstring",
		"runtime.memclr", "runtime.memequal", "runtime.strequal", "runtime.efaceeq", "runtime.ifaceeq", "runtime.racewrite", "runtime.raceread",
		"runtime.typedmemclr", "runtime.wbMove", "runtime.bulkBarrierPreWrite", "runtime.unsafeslice", "runtime.unsafestring"} {
		if strings.HasPrefix(fn, p) {
			return true
		}
	}
	return false
}

func isFrugalFn(fn string) bool {
	return strings.HasPrefix(fn, "github.com/cloudwego/frugal") && !strings.Contains(fn, "/verifharness/") && !strings.Contains(fn, "/internal/verifsim")
}

// raceSig builds a stable signature from the frugal functions on the access stacks.
func raceSig(rr RaceReport) string {
	var fs []string
	seen := map[string]bool{}
	for _, f := range rr.Accessors {
		if isFrugalFn(f) {
			short := f[strings.LastIndex(f, "/")+1:]
			if !seen[short] {
				seen[short] = true
				fs = append(fs, short)
			}
		}
	}
	sort.Strings(fs)
	if len(fs) > 3 {
		fs = fs[:3]
	}
	return strings.Join(fs, "+")
}

// pool runs jobs on up to n workers and returns results in job order.
func parallel(n int, jobs int, f func(i int)) {
	var wg sync.WaitGroup
	ch := make(chan int)
	for w := 0; w < n; w++ {
		wg.Add(1)
		go func() {
			defer wg.Done()
			for i := range ch {
				f(i)
			}
		}()
	}
	for i := 0; i < jobs; i++ {
		ch <- i
	}
	close(ch)
	wg.Wait()
}
