package main

import (
	"encoding/json"
	"fmt"
	"os"
	"os/exec"
	"path/filepath"
	"sort"
	"strings"
	"time"
)

// selftestDeterminism: the same run seed must give the same canonical event log in every process, for every
// property's world, across GOMAXPROCS 1/4/16 and across the plain and race builds.
func selftestDeterminism(props []string, n int, seed uint64) int {
	bad := 0
	for _, prop := range props {
		c := &Checker{Prop: prop, Tier: "quick", Seed: seed, Start: time.Now(), Workers: 16, builds: map[string]*Build{}, baseline: map[string]*Rec{}, agg: newAgg()}
		if digestProps(prop) {
			c.Bank = 300
		}
		cfgs := []BuildCfg{{Corpus: seed}}
		if prop == "C08" || prop == "C16" {
			cfgs = append(cfgs, BuildCfg{Corpus: seed, Race: true})
		}
		var builds []*Build
		for _, cfg := range cfgs {
			b, err := c.build(cfg)
			if err != nil {
				fmt.Println("MACHINERY: build:", err)
				return 2
			}
			builds = append(builds, b)
		}
		type res struct{ key, label string }
		out := make([][]res, n)
		parallel(5, n, func(i int) {
			for _, b := range builds {
				for _, gmp := range []string{"1", "4", "16"} {
					rr := runChild(ChildOpts{Build: b, Args: c.runArgs(i), Env: []string{"GOMAXPROCS=" + gmp}})
					k := journalKey(rr)
					if rr.Machine != "" {
						k = "MACHINE:" + rr.Machine
					}
					out[i] = append(out[i], res{k, fmt.Sprintf("race=%v GOMAXPROCS=%s", b.Cfg.Race, gmp)})
				}
			}
		})
		// compared within one binary: step counts legitimately differ between binaries, because the number of
		// iterations of the descriptor map's slot scan depends on the low address bits of the type descriptors
		mism := 0
		for i := range out {
			first := map[string]res{}
			for _, r := range out[i] {
				bk := strings.SplitN(r.label, " ", 2)[0]
				f, ok := first[bk]
				if !ok {
					first[bk] = r
					continue
				}
				if r.key != f.key {
					out[i][0] = f
					mism++
					if mism <= 3 {
						fmt.Printf("MISMATCH %s run %d: %s vs %s\n  %s\n  %s\n", prop, i, out[i][0].label, r.label, tail(out[i][0].key, 300), tail(r.key, 300))
					}
				}
			}
		}
		fmt.Printf("determinism %s: %d run seeds x %d processes each, %d mismatches\n", prop, n, len(out[0]), mism)
		bad += mism
	}
	if bad > 0 {
		return 2
	}
	return 0
}

// selftestMutants applies each deliberate property-breaking patch of selftest/mutants to /repo (restoring it
// afterwards), and requires the check of the intended property to report a violation whose replay reproduces.
// The intended property is the prefix of the patch's file name, or given in selftest/mutants/EXPECT.
func selftestMutants(filter string, budget time.Duration) int {
	dir := filepath.Join(verifDir, "selftest", "mutants")
	ents, _ := os.ReadDir(dir)
	expect := map[string][]string{}
	if b, err := os.ReadFile(filepath.Join(dir, "EXPECT")); err == nil {
		for _, l := range strings.Split(string(b), "\n") {
			f := strings.Fields(l)
			if len(f) >= 2 && !strings.HasPrefix(f[0], "#") {
				expect[f[0]] = f[1:]
			}
		}
	}
	var names []string
	paths := map[string]string{}
	for _, e := range ents {
		if strings.HasSuffix(e.Name(), ".diff") && strings.Contains(e.Name(), filter) {
			names = append(names, e.Name())
			paths[e.Name()] = filepath.Join(dir, e.Name())
		}
	}
	// seeded changes from independent sub-agents: seeded/<id>/patch.diff, property in meta.json
	sdir := filepath.Join(verifDir, "seeded")
	if sents, err := os.ReadDir(sdir); err == nil {
		for _, e := range sents {
			var meta struct {
				Property string   `json:"property"`
				Expect   []string `json:"expect_checks"`
			}
			mb, err := os.ReadFile(filepath.Join(sdir, e.Name(), "meta.json"))
			if err != nil || json.Unmarshal(mb, &meta) != nil || meta.Property == "" {
				continue
			}
			name := "seeded/" + e.Name()
			if strings.Contains(name, filter) {
				names = append(names, name)
				paths[name] = filepath.Join(sdir, e.Name(), "patch.diff")
				expect[name] = []string{meta.Property}
				if len(meta.Expect) > 0 {
					expect[name] = meta.Expect
				}
			}
		}
	}
	sort.Strings(names)
	if out, err := exec.Command("git", "-C", repoDir, "status", "--porcelain", "--untracked-files=no").Output(); err != nil || len(strings.TrimSpace(string(out))) > 0 {
		fmt.Println("MACHINERY: /repo has uncommitted changes; refusing to apply mutants")
		return 2
	}
	missed := 0
	for _, name := range names {
		props := expect[name]
		if len(props) == 0 {
			fmt.Printf("%-48s no expectation recorded, skipped\n", name)
			continue
		}
		if out, err := exec.Command("git", "-C", repoDir, "apply", paths[name]).CombinedOutput(); err != nil {
			fmt.Printf("%-48s does not apply: %s\n", name, strings.TrimSpace(string(out)))
			missed++
			continue
		}
		for _, prop := range props {
			t0 := time.Now()
			cmd := exec.Command(os.Args[0], "check", "-p", prop, "-budget", budget.String())
			cmd.Dir = verifDir
			out, _ := cmd.CombinedOutput()
			code := cmd.ProcessState.ExitCode()
			verdict := "MISSED"
			if code == 1 && strings.Contains(string(out), "VIOLATION property="+prop) {
				verdict = "caught"
			} else if code == 2 {
				verdict = "MACHINERY"
			}
			if verdict != "caught" {
				missed++
			}
			var sigs []string
			for _, l := range strings.Split(string(out), "\n") {
				if strings.HasPrefix(l, "--- violation ") {
					sigs = append(sigs, strings.Fields(l)[2])
				}
			}
			fmt.Printf("%-48s %s: %-9s %5.1fs %s\n", name, prop, verdict, time.Since(t0).Seconds(), strings.Join(sigs, " "))
		}
		exec.Command("git", "-C", repoDir, "checkout", "--", ".").Run()
	}
	if missed > 0 {
		return 1
	}
	return 0
}
