package main

import (
	"encoding/json"
	"fmt"
	"os"
	"path/filepath"
	"sort"
	"strings"
	"sync"
	"time"
)

// Violation is one observed breach of the checked property.
type Violation struct {
	Prop  string   `json:"property"`
	Sig   string   `json:"signature"`
	Msg   string   `json:"message"`
	Kind  string   `json:"kind"` // inchild | digest | crash | race | deadlock
	Slot  int      `json:"slot"`
	Op    uint64   `json:"op"`
	Spec  *RunSpec `json:"spec"`
	Build BuildCfg `json:"build"`
	Env   []string `json:"env,omitempty"`
	Extra string   `json:"extra,omitempty"`
	rr    *RunResult
}

// Checker runs the check of one property.
type Checker struct {
	Prop     string
	Tier     string
	Seed     uint64
	Start    time.Time
	Deadline time.Time
	Workers  int

	builds map[string]*Build // by BuildCfg.String()
	plain  *Build            // default build of the main corpus (baselines, adjudication)

	blMu     sync.Mutex
	baseline map[string]*Rec // "<corpus>/<op>" -> fresh-process result
	blLoaded map[uint64]bool
	blDirty  map[uint64]bool
	Bank     uint64 // bank prefix used by this tier (0: whole bank)

	agg          *Agg
	minBudgetEnd time.Time
	viols        []Violation
	notes        []string
	mach         []string
	mu           sync.Mutex
}

func digestProps(p string) bool { return p == "C07" || p == "C08" || p == "C13" || p == "C17" }

func (c *Checker) build(cfg BuildCfg) (*Build, error) {
	if cfg.Toolchain == "" {
		cfg.Toolchain = "go"
	}
	k := cfg.String()
	c.mu.Lock()
	b := c.builds[k]
	c.mu.Unlock()
	if b != nil {
		return b, nil
	}
	b, err := GetBuild(cfg)
	if err != nil {
		return nil, err
	}
	c.mu.Lock()
	c.builds[k] = b
	c.mu.Unlock()
	fmt.Printf("build %s: %s (cached=%v %.1fs, %d yield sites)\n", k, filepath.Base(b.Bin), b.Cached, b.Secs, len(b.Sites))
	for _, m := range b.KnobMiss {
		fmt.Printf("  knob %s not found in the tree: this knob build reduces to the default (coverage reduced, no alarm)\n", m)
	}
	return b, nil
}

func (c *Checker) plainFor(corpus uint64) (*Build, error) {
	return c.build(BuildCfg{Corpus: corpus})
}

// ---------------------------------------------------------------- baselines

// baselines are cached on disk under the content hash of the build (tree + payload): any edit to /repo changes the key.
func (c *Checker) blCachePath(b *Build) string {
	return filepath.Join(verifDir, ".cache", "baseline", fmt.Sprintf("%s-%s-%d.json", strings.TrimSuffix(filepath.Base(b.Bin), ".sim"), c.Prop, c.Seed))
}

func (c *Checker) loadBaselineCache(corpus uint64, b *Build) {
	c.blMu.Lock()
	defer c.blMu.Unlock()
	if c.blLoaded == nil {
		c.blLoaded, c.blDirty = map[uint64]bool{}, map[uint64]bool{}
	}
	if c.blLoaded[corpus] {
		return
	}
	c.blLoaded[corpus] = true
	if os.Getenv("VSIM_NO_BASELINE_CACHE") != "" {
		return
	}
	data, err := os.ReadFile(c.blCachePath(b))
	if err != nil {
		return
	}
	var m map[string]*Rec
	if json.Unmarshal(data, &m) == nil {
		for k, v := range m {
			c.baseline[k] = v
		}
		c.agg.mu.Lock()
		c.agg.BaselineCached += len(m)
		c.agg.mu.Unlock()
	}
}

func (c *Checker) saveBaselineCaches() {
	c.blMu.Lock()
	defer c.blMu.Unlock()
	for corpus := range c.blDirty {
		b := c.builds[BuildCfg{Corpus: corpus, Toolchain: "go"}.String()]
		if b == nil {
			continue
		}
		m := map[string]*Rec{}
		pre := fmt.Sprintf("%d/", corpus)
		for k, v := range c.baseline {
			if strings.HasPrefix(k, pre) {
				m[k] = v
			}
		}
		os.MkdirAll(filepath.Dir(c.blCachePath(b)), 0o755)
		if data, err := json.Marshal(m); err == nil {
			os.WriteFile(c.blCachePath(b), data, 0o644)
		}
	}
}

func (c *Checker) ensureBaselines(corpus uint64, ops []uint64) error {
	b, err := c.plainFor(corpus)
	if err != nil {
		return err
	}
	c.loadBaselineCache(corpus, b)
	var need []uint64
	c.blMu.Lock()
	seen := map[uint64]bool{}
	for _, op := range ops {
		if _, ok := c.baseline[blKey(corpus, op)]; !ok && !seen[op] {
			seen[op] = true
			need = append(need, op)
		}
	}
	c.blMu.Unlock()
	if len(need) == 0 {
		return nil
	}
	var machine string
	parallel(c.Workers, len(need), func(i int) {
		rr := runChild(ChildOpts{Build: b, Args: []string{"-prof", c.Prop, "-seed", fmt.Sprint(c.Seed), "-single", fmt.Sprint(need[i])}, Timeout: 60 * time.Second})
		rec := &Rec{Cls: "crash", D: "crash"}
		if rr.Machine != "" {
			machine = rr.Machine
		}
		if len(rr.Ends) > 0 {
			r := rr.Ends[0]
			rec = &r
		} else if rr.Crashed {
			rec.Err = crashClass(rr) + ": " + crashSummary(rr.Stderr)
			rec.D = "crash:" + crashClass(rr)
		}
		c.blMu.Lock()
		c.baseline[blKey(corpus, need[i])] = rec
		c.blDirty[corpus] = true
		c.blMu.Unlock()
		c.agg.mu.Lock()
		c.agg.BaselineRuns++
		c.agg.mu.Unlock()
	})
	if machine != "" {
		return fmt.Errorf("baseline child: %s", machine)
	}
	return nil
}

func blKey(corpus, op uint64) string { return fmt.Sprintf("%d/%d", corpus, op) }

func (c *Checker) bl(corpus, op uint64) *Rec {
	c.blMu.Lock()
	defer c.blMu.Unlock()
	return c.baseline[blKey(corpus, op)]
}

// ---------------------------------------------------------------- evaluation of one run

type evalOpts struct {
	Build *Build
	Args  []string
	Spec  *RunSpec
	Env   []string
	// when false, digest mismatches are returned unadjudicated (used inside adjudication itself)
	NoAdjudicate bool
}

// evaluate runs one child and turns what it shows into violations of the checked property.
func (c *Checker) evaluate(o evalOpts) (*RunResult, []Violation, error) {
	rr := runChild(ChildOpts{Build: o.Build, Args: o.Args, Spec: o.Spec, Env: o.Env, Timeout: c.childTimeout()})
	if rr.Machine != "" {
		return rr, nil, fmt.Errorf("machinery: %s", rr.Machine)
	}
	if rr.Spec == nil {
		if rr.Crashed && c.Prop == "C17" && len(o.Env) > 0 {
			// the process did not even start under this (valid) environment: does it start under the default one?
			var spec RunSpec
			ok := false
			if o.Spec != nil {
				spec, ok = *o.Spec, true
			} else if out := runChildOut(o.Build, append(append([]string{}, o.Args...), "-plan")...); json.Unmarshal([]byte(strings.TrimSpace(out)), &spec) == nil && spec.Prof != "" {
				ok = true
			}
			if ok {
				spec.Hist = nil
				v := Violation{Prop: "C17", Sig: "C17/valid-environment-kills-process", Kind: "crash", Slot: -1, Spec: &spec, Build: o.Build.Cfg, Env: o.Env, rr: rr,
					Msg: fmt.Sprintf("under the valid environment %v the process dies before the first call, under the default environment it starts: %s", o.Env, crashSummary(rr.Stderr))}
				return rr, []Violation{v}, nil
			}
		}
		if rr.Crashed {
			return rr, nil, fmt.Errorf("child died before announcing its run specification: %s", tail(rr.Stderr, 2000))
		}
		return rr, nil, fmt.Errorf("child produced no run specification")
	}
	var vs []Violation
	mk := func(sig, msg, kind string, slot int, op uint64) Violation {
		return Violation{Prop: c.Prop, Sig: sig, Msg: msg, Kind: kind, Slot: slot, Op: op, Spec: rr.Spec, Build: o.Build.Cfg, Env: o.Env, rr: rr}
	}
	for _, v := range rr.Viols {
		if v.Prop == c.Prop {
			kind := "inchild"
			if strings.HasPrefix(v.Sig, "C08/deadlock") || strings.HasPrefix(v.Sig, "C08/no-progress") {
				kind = "deadlock"
			}
			vs = append(vs, mk(v.Sig, v.Msg, kind, v.Slot, v.Op))
		} else {
			c.note(fmt.Sprintf("NOTE out-of-scope for %s: %s %s", c.Prop, v.Sig, v.Msg))
		}
	}
	if rr.TimedOut {
		// a child that does not finish: a hang of the code under test (no progress) unless the machinery is at fault
		if c.Prop == "C08" {
			vs = append(vs, mk("C08/no-progress/timeout", "the run did not finish within the wall-clock watchdog", "deadlock", -1, 0))
		} else if c.Prop == "C05" && rr.InFlight != nil {
			vs = append(vs, mk("C05/hang", fmt.Sprintf("DecodeObject did not return (op %d, %s)", rr.InFlight.Op, subDesc(rr)), "crash", rr.InFlight.Slot, rr.InFlight.Op))
		} else if rr.InFlight != nil && !rr.Spec.Single {
			// an operation that does not return: does it return when it runs first and alone in a fresh process?
			if err := c.ensureBaselines(rr.Spec.Corpus, []uint64{rr.InFlight.Op}); err != nil {
				return rr, vs, fmt.Errorf("child timed out (watchdog); adjudication failed: %v", err)
			}
			if bl := c.bl(rr.Spec.Corpus, rr.InFlight.Op); bl != nil && bl.Cls == "crash" {
				c.note(fmt.Sprintf("NOTE out-of-scope for %s: op %d does not return in a fresh process either (%s)", c.Prop, rr.InFlight.Op, bl.Err))
			} else {
				vs = append(vs, mk(c.Prop+"/hang-depends-on-context", fmt.Sprintf("op %d did not return within the watchdog, although it returns when run first and alone in a fresh process", rr.InFlight.Op), "crash", rr.InFlight.Slot, rr.InFlight.Op))
			}
		} else {
			return rr, vs, fmt.Errorf("child timed out (watchdog)")
		}
		return rr, vs, nil
	}
	if rr.Crashed {
		v, note := c.attributeCrash(o, rr)
		if v != nil {
			vs = append(vs, *v)
		} else if note != "" {
			c.note(note)
		}
	}
	if o.Build.Cfg.Race && (c.Prop == "C08" || c.Prop == "C16" || c.Prop == "C17") {
		for _, r := range rr.Races {
			if !r.InFrugal {
				continue
			}
			if c.Prop == "C17" && !raceThroughLegacyControl(r) {
				c.note("NOTE out-of-scope for C17: data race that does not involve a legacy control: " + raceSig(r))
				continue
			}
			if c.Prop == "C16" && !raceOnHarnessMemory(r) {
				c.note("NOTE out-of-scope for C16: data race inside frugal's own state: " + raceSig(r))
				continue
			}
			sig := c.Prop + "/data-race/" + raceSig(r)
			vs = append(vs, Violation{Prop: c.Prop, Sig: sig, Msg: "ThreadSanitizer under the controlled schedule:\n" + tail(r.Text, 3000), Kind: "race", Slot: -1,
				Spec: rr.Spec, Build: o.Build.Cfg, Env: o.Env, rr: rr})
		}
	}
	if digestProps(c.Prop) && !rr.Spec.Single {
		dv, err := c.compareDigests(o, rr)
		if err != nil {
			return rr, vs, err
		}
		vs = append(vs, dv...)
	}
	return rr, vs, nil
}

func subDesc(rr *RunResult) string {
	if rr.LastSub != nil {
		return fmt.Sprintf("input in flight: %d bytes, %s", rr.LastSub.N, rr.LastSub.Msg)
	}
	return "no sub-record"
}

func (c *Checker) childTimeout() time.Duration {
	if c.Tier == "thorough" {
		return 240 * time.Second
	}
	return 150 * time.Second
}

// raceThroughLegacyControl: one of the two racing accesses was made on behalf of a legacy JIT control.
func raceThroughLegacyControl(r RaceReport) bool {
	for _, f := range r.TopFrames {
		switch {
		case strings.HasSuffix(f, "frugal.Pretouch"), strings.HasSuffix(f, "frugal.NoJIT"), strings.Contains(f, "frugal.SetMaxInline"),
			strings.Contains(f, "frugal.WithMax"), strings.HasSuffix(f, "frugal/debug.GetStats"), strings.Contains(f, "frugal/internal/opts."):
			return true
		}
	}
	return false
}

// raceOnHarnessMemory: the racy location was allocated by the harness (argument values, input buffers), not by frugal.
func raceOnHarnessMemory(r RaceReport) bool {
	i := strings.Index(r.Text, "allocated by")
	if i < 0 {
		return true // not a Go heap block (mmap'ed input buffer, or a global)
	}
	sec := r.Text[i:]
	if j := strings.Index(sec, "\n\n"); j > 0 {
		sec = sec[:j]
	}
	for _, l := range strings.Split(sec, "\n") {
		t := strings.TrimSpace(l)
		if strings.HasPrefix(t, "/") || !strings.Contains(t, "(") {
			continue
		}
		fn := strings.TrimSuffix(t, "()")
		if strings.HasPrefix(fn, "runtime.") || strings.HasPrefix(fn, "reflect.") {
			continue
		}
		if strings.Contains(fn, "/verifharness/") {
			return true
		}
		if strings.HasPrefix(fn, "github.com/cloudwego/frugal") {
			return false
		}
	}
	return true
}

// attributeCrash decides whether a dead child violates the checked property.
func (c *Checker) attributeCrash(o evalOpts, rr *RunResult) (*Violation, string) {
	cls := crashClass(rr)
	sum := crashSummary(rr.Stderr)
	inf := rr.InFlight
	mk := func(sig, msg string) *Violation {
		v := Violation{Prop: c.Prop, Sig: sig, Msg: msg + "\n" + tail(rr.Stderr, 2500), Kind: "crash", Slot: -1, Spec: rr.Spec, Build: o.Build.Cfg, Env: o.Env, rr: rr}
		if inf != nil {
			v.Slot, v.Op = inf.Slot, inf.Op
		}
		return &v
	}
	if inf == nil {
		return nil, fmt.Sprintf("NOTE child died outside any operation (%s: %s)", cls, sum)
	}
	switch c.Prop {
	case "C05":
		return mk("C05/crash/"+cls, fmt.Sprintf("the process died inside DecodeObject (op %d; %s): %s", inf.Op, subDesc(rr), sum)), ""
	case "C04":
		return mk("C04/crash/"+cls, fmt.Sprintf("the process died inside EncodedSize/EncodeObject (op %d): %s", inf.Op, sum)), ""
	case "C13":
		// only calls on rejected definitions / non-struct arguments are C13's
		if rr.Spec != nil {
			if isRej, desc := c.opIsRejected(o.Build, inf.Op); isRej {
				return mk("C13/crash/"+cls, fmt.Sprintf("the process died in a call on a rejected definition (%s): %s", desc, sum)), ""
			}
		}
	}
	// everything else: does the operation also die first and alone in a fresh process?
	if rr.Spec.Single {
		return nil, ""
	}
	if err := c.ensureBaselines(rr.Spec.Corpus, []uint64{inf.Op}); err != nil {
		return nil, "NOTE crash adjudication failed: " + err.Error()
	}
	if bl := c.bl(rr.Spec.Corpus, inf.Op); bl != nil && bl.Cls == "crash" {
		return nil, fmt.Sprintf("NOTE out-of-scope crash for %s: op %d dies in a fresh process too (%s)", c.Prop, inf.Op, bl.Err)
	}
	if c.Prop == "C08" {
		// the sequential re-execution decides
		if seq := c.sequentialOf(rr); seq != nil {
			srr := runChild(ChildOpts{Build: o.Build, Spec: seq, Env: o.Env, Timeout: c.childTimeout()})
			if srr.Crashed {
				return nil, fmt.Sprintf("NOTE out-of-scope crash for C08: the sequential re-execution dies too (%s)", crashSummary(srr.Stderr))
			}
		}
	}
	return mk(c.Prop+"/crash-depends-on-context/"+cls, fmt.Sprintf("the process died in op %d, which runs fine first and alone in a fresh process: %s", inf.Op, sum)), ""
}

var opDescCache sync.Map

func (c *Checker) opIsRejected(b *Build, op uint64) (bool, string) {
	d := c.describeOp(b, op)
	return strings.Contains(d, "[rejected definition") || strings.Contains(d, " arg "), d
}

func (c *Checker) describeOp(b *Build, op uint64) string {
	k := fmt.Sprintf("%s/%d/%d", c.Prop, b.Cfg.Corpus, op)
	if v, ok := opDescCache.Load(k); ok {
		return v.(string)
	}
	rr := runChildRaw(b, "-prof", c.Prop, "-describe", fmt.Sprint(op))
	lines := strings.Split(strings.TrimSpace(rr), "\n")
	d := lines[len(lines)-1]
	opDescCache.Store(k, d)
	return d
}

// sequentialOf builds the sequential re-execution of a concurrent run: the same operations, one task,
// non-preemptive, in the completion order of the concurrent run (unfinished ones last).
func (c *Checker) sequentialOf(rr *RunResult) *RunSpec {
	if rr.Spec == nil {
		return nil
	}
	s := *rr.Spec
	s.Tasks = 1
	s.Rounds = 1
	s.Sched = SchedSpec{Strategy: "nonpreemptive"}
	done := map[int]bool{}
	var hist []Step
	bySlot := map[int]Step{}
	for _, st := range rr.Spec.Hist {
		bySlot[st.Slot] = st
	}
	for _, e := range rr.Ends {
		if st, ok := bySlot[e.Slot]; ok && !done[e.Slot] {
			done[e.Slot] = true
			st.Task, st.Round = 0, 0
			hist = append(hist, st)
		}
	}
	for _, st := range rr.Spec.Hist {
		if !done[st.Slot] {
			st.Task, st.Round = 0, 0
			hist = append(hist, st)
		}
	}
	s.Hist = hist
	return &s
}

// compareDigests: every operation's canonical result against the same operation executed first and alone in a
// fresh process under the default configuration.
func (c *Checker) compareDigests(o evalOpts, rr *RunResult) ([]Violation, error) {
	var ops []uint64
	for _, e := range rr.Ends {
		if e.Cls != "event" && e.D != "legacy" && e.D != "" && !sysRejected(c.Prop, e.Op) {
			ops = append(ops, e.Op)
		}
	}
	if err := c.ensureBaselines(rr.Spec.Corpus, ops); err != nil {
		return nil, err
	}
	var vs []Violation
	for _, e := range rr.Ends {
		if e.D == "legacy" || e.D == "" || sysRejected(c.Prop, e.Op) {
			continue
		}
		bl := c.bl(rr.Spec.Corpus, e.Op)
		c.agg.mu.Lock()
		c.agg.DigestCompared++
		c.agg.mu.Unlock()
		if bl == nil || bl.D == e.D {
			continue
		}
		if bl.Cls == "crash" {
			continue // dies alone: nothing to compare with
		}
		tag := e.Tag
		if i := strings.Index(tag, "{"); i > 0 {
			tag = tag[:i]
		}
		v := Violation{Prop: c.Prop, Kind: "digest", Slot: e.Slot, Op: e.Op, Spec: rr.Spec, Build: o.Build.Cfg, Env: o.Env, rr: rr,
			Sig: fmt.Sprintf("%s/result-differs-from-fresh/%s%s", c.Prop, tag, shapeClass(e.Tag)),
			Msg: fmt.Sprintf("op %d (%s) at slot %d returned cls=%s n=%d err=%q digest=%s; first and alone in a fresh process it returns cls=%s n=%d err=%q digest=%s",
				e.Op, c.describeOp(o.Build, e.Op), e.Slot, e.Cls, e.N, e.Err, e.D, bl.Cls, bl.N, bl.Err, bl.D)}
		if !o.NoAdjudicate {
			keep, why := c.adjudicate(o, rr, &v)
			if !keep {
				c.note(fmt.Sprintf("NOTE out-of-scope for %s: %s (%s)", c.Prop, v.Msg, why))
				continue
			}
			v.Extra = why
		}
		vs = append(vs, v)
	}
	return vs, nil
}

// sysRejected: operations of the systematic part of C13's bank (every rejected definition x entry point) carry their
// expected verdict by construction and are not compared with a fresh-process baseline.
func sysRejected(prop string, op uint64) bool { return prop == "C13" && op >= 1<<32 && op < 1<<36 }

// shapeClass reduces a type shape to a coarse class so that signatures are stable but not seed-specific.
func shapeClass(tag string) string {
	i := strings.Index(tag, "{")
	if i < 0 {
		return ""
	}
	sh := tag[i:]
	var cls []string
	for _, k := range []string{"map<", "list<", "set<", "*struct", "struct", "binary", "string", "enum"} {
		if strings.Contains(sh, k) {
			cls = append(cls, strings.Trim(k, "<*"))
		}
	}
	if len(cls) > 3 {
		cls = cls[:3]
	}
	return "/" + strings.Join(cls, "+")
}

// adjudicate decides whether a digest difference belongs to the checked property or to another one.
func (c *Checker) adjudicate(o evalOpts, rr *RunResult, v *Violation) (bool, string) {
	differs := func(spec *RunSpec, env []string, build *Build) (bool, bool) {
		r2 := runChild(ChildOpts{Build: build, Spec: spec, Env: env, Timeout: c.childTimeout()})
		if r2.Machine != "" || r2.Spec == nil {
			return false, false
		}
		bl := c.bl(spec.Corpus, v.Op)
		for _, e := range r2.Ends {
			if e.Slot == v.Slot && e.Op == v.Op {
				return bl != nil && e.D != bl.D, true
			}
		}
		return false, r2.Crashed == false
	}
	switch c.Prop {
	case "C07":
		return true, ""
	case "C08":
		// sequential re-execution in completion order, several pool decision streams
		seq := c.sequentialOf(rr)
		plain := c.plain
		for k := 0; k < 4; k++ {
			s := *seq
			s.Seed = seq.Seed + uint64(k)*7919
			if d, ok := differs(&s, o.Env, plain); ok && d {
				return false, "the sequential re-execution shows the same difference: a dependence on call history, not on the schedule"
			}
		}
		return true, "4 sequential re-executions in completion order agree with the fresh-process result"
	case "C17":
		// the same history under the default configuration and without the legacy calls
		s := *rr.Spec
		s.Hist = nil
		for _, st := range rr.Spec.Hist {
			if !strings.Contains(c.describeOp(o.Build, st.Op), " legacy ") || st.Ev != "" {
				s.Hist = append(s.Hist, st)
			}
		}
		if d, ok := differs(&s, nil, o.Build); ok && d {
			return false, "the difference persists under the default environment without any legacy call: a dependence on call history"
		}
		return true, "the difference disappears under the default environment without the legacy calls"
	case "C13":
		s := *rr.Spec
		s.Hist = nil
		for _, st := range rr.Spec.Hist {
			if rej, _ := c.opIsRejected(o.Build, st.Op); !rej || st.Ev != "" {
				s.Hist = append(s.Hist, st)
			}
		}
		if d, ok := differs(&s, o.Env, o.Build); ok && d {
			return false, "the difference persists without any call on a rejected definition: a dependence on call history"
		}
		return true, "the difference disappears when the calls on rejected definitions are removed"
	}
	return true, ""
}

func (c *Checker) note(s string) {
	c.mu.Lock()
	defer c.mu.Unlock()
	if len(c.notes) < 200 {
		c.notes = append(c.notes, s)
	}
}

func runChildRaw(b *Build, args ...string) string {
	rr := runChildOut(b, args...)
	return rr
}

// ---------------------------------------------------------------- known findings

type KnownFindings struct {
	Findings []struct {
		Property  string `json:"property"`
		Signature string `json:"signature"`
		What      string `json:"what"`
	} `json:"findings"`
	Fixed []struct {
		Property string `json:"property"`
		Commit   string `json:"commit"`
		What     string `json:"what"`
	} `json:"fixed"`
}

func loadKnown() *KnownFindings {
	k := &KnownFindings{}
	b, err := os.ReadFile(filepath.Join(verifDir, "known_findings.json"))
	if err == nil {
		json.Unmarshal(b, k)
	}
	return k
}

func (k *KnownFindings) match(v *Violation) (string, bool) {
	for _, f := range k.Findings {
		if f.Property != v.Prop {
			continue
		}
		if f.Signature == v.Sig || (strings.HasSuffix(f.Signature, "*") && strings.HasPrefix(v.Sig, strings.TrimSuffix(f.Signature, "*"))) {
			return f.What, true
		}
	}
	return "", false
}

// ---------------------------------------------------------------- main loop

type runPlan struct {
	Build BuildCfg
	Env   []string
	Runs  int // how many run indices to draw for this configuration in one round
	Label string
}

func sortedKeys(m map[string]int) []string {
	var ks []string
	for k := range m {
		ks = append(ks, k)
	}
	sort.Strings(ks)
	return ks
}
