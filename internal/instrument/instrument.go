// Package instrument rewrites a scratch copy of the frugal module so that the
// simulator owns every scheduling decision: import paths of sync and
// sync/atomic are redirected to scheduler-aware shims, and a Yield call is
// spliced after the opening brace of every function body, function literal and
// loop body. Edits are byte-offset splices on the same line, so line numbers of
// the original sources are preserved.
package instrument

import (
	"bytes"
	"fmt"
	"go/ast"
	"go/parser"
	"go/token"
	"os"
	"path/filepath"
	"sort"
	"strconv"
	"strings"
)

const (
	ModPath  = "github.com/cloudwego/frugal"
	SimPath  = ModPath + "/internal/verifsim"
	SyncPath = SimPath + "/ssync"
	AtomPath = SimPath + "/satomic"
)

// Site describes one inserted yield point.
type Site struct {
	ID   int    `json:"id"`
	File string `json:"file"`
	Line int    `json:"line"`
	Kind string `json:"kind"` // func | lit | loop | stmt
	Func string `json:"func"`
}

// Options selects the granularity and knob rewrites.
type Options struct {
	Stmt  bool              // additionally yield before every statement of every block
	Knobs map[string]string // constant name -> replacement literal text
}

// Result reports what was done.
type Result struct {
	Sites        []Site
	Files        int
	ImportsSync  int
	ImportsAtom  int
	KnobsApplied map[string]string // name -> "file:line old->new"
	KnobsMissing []string
}

type edit struct {
	off  int // byte offset in the original file
	del  int // bytes deleted at off
	text string
}

// Tree rewrites every non-test .go file below root, except the simulator's own
// packages (internal/verifsim, verifharness).
func Tree(root string, opt Options) (*Result, error) {
	res := &Result{KnobsApplied: map[string]string{}}
	var files []string
	err := filepath.Walk(root, func(p string, info os.FileInfo, err error) error {
		if err != nil {
			return err
		}
		rel, _ := filepath.Rel(root, p)
		if info.IsDir() {
			switch {
			case rel == "internal/verifsim", rel == "verifharness", rel == "tests", rel == "fuzz",
				strings.HasPrefix(info.Name(), ".") && rel != ".", info.Name() == "testdata":
				return filepath.SkipDir
			}
			return nil
		}
		if strings.HasSuffix(p, ".go") && !strings.HasSuffix(p, "_test.go") {
			files = append(files, p)
		}
		return nil
	})
	if err != nil {
		return nil, err
	}
	sort.Strings(files)
	for _, f := range files {
		rel, _ := filepath.Rel(root, f)
		if err := rewriteFile(f, rel, opt, res); err != nil {
			return nil, fmt.Errorf("%s: %w", rel, err)
		}
		res.Files++
	}
	for k := range opt.Knobs {
		if _, ok := res.KnobsApplied[k]; !ok {
			res.KnobsMissing = append(res.KnobsMissing, k)
		}
	}
	sort.Strings(res.KnobsMissing)
	return res, nil
}

func rewriteFile(path, rel string, opt Options, res *Result) error {
	src, err := os.ReadFile(path)
	if err != nil {
		return err
	}
	fset := token.NewFileSet()
	f, err := parser.ParseFile(fset, path, src, parser.ParseComments)
	if err != nil {
		return err
	}
	off := func(p token.Pos) int { return fset.Position(p).Offset }
	var edits []edit

	// imports
	simName := "verifsim"
	for _, im := range f.Imports {
		p, _ := strconv.Unquote(im.Path.Value)
		var np, defName string
		switch p {
		case "sync":
			np, defName = SyncPath, "sync"
			res.ImportsSync++
		case "sync/atomic":
			np, defName = AtomPath, "atomic"
			res.ImportsAtom++
		default:
			continue
		}
		text := strconv.Quote(np)
		if im.Name == nil {
			text = defName + " " + text
		}
		edits = append(edits, edit{off: off(im.Path.Pos()), del: len(im.Path.Value), text: text})
	}

	// yields
	nsites := 0
	addSite := func(pos token.Pos, kind, fn string) {
		id := len(res.Sites)
		res.Sites = append(res.Sites, Site{ID: id, File: rel, Line: fset.Position(pos).Line, Kind: kind, Func: fn})
		edits = append(edits, edit{off: off(pos), text: fmt.Sprintf(" %s.Yield(%d);", simName, id)})
		nsites++
	}
	var curFunc string
	var visit func(n ast.Node) bool
	visit = func(n ast.Node) bool {
		switch x := n.(type) {
		case *ast.FuncDecl:
			if x.Body == nil {
				return false
			}
			name := x.Name.Name
			if x.Recv != nil && len(x.Recv.List) > 0 {
				name = recvName(x.Recv.List[0].Type) + "." + name
			}
			prev := curFunc
			curFunc = name
			addSite(x.Body.Lbrace+1, "func", name)
			ast.Inspect(x.Body, visit2(&visit))
			curFunc = prev
			return false
		case *ast.FuncLit:
			addSite(x.Body.Lbrace+1, "lit", curFunc)
		case *ast.ForStmt:
			addSite(x.Body.Lbrace+1, "loop", curFunc)
		case *ast.RangeStmt:
			addSite(x.Body.Lbrace+1, "loop", curFunc)
		case *ast.BlockStmt:
			if opt.Stmt {
				for _, st := range x.List {
					switch st.(type) {
					case *ast.LabeledStmt, *ast.DeclStmt, *ast.EmptyStmt, *ast.CaseClause, *ast.CommClause:
						continue // (the body of a switch/select is a block whose "statements" are its clauses)
					}
					addSite(st.Pos(), "stmt", curFunc)
				}
			}
		case *ast.CaseClause:
			if opt.Stmt {
				for _, st := range x.Body {
					switch st.(type) {
					case *ast.LabeledStmt, *ast.DeclStmt, *ast.EmptyStmt:
						continue
					}
					addSite(st.Pos(), "stmt", curFunc)
				}
			}
		}
		return true
	}
	ast.Inspect(f, visit)

	// knobs: named integer constants / variables with a literal initialiser
	for _, d := range f.Decls {
		gd, ok := d.(*ast.GenDecl)
		if !ok || (gd.Tok != token.CONST && gd.Tok != token.VAR) {
			continue
		}
		for _, sp := range gd.Specs {
			vs := sp.(*ast.ValueSpec)
			for i, n := range vs.Names {
				nv, want := opt.Knobs[n.Name]
				if !want || i >= len(vs.Values) {
					continue
				}
				lit, ok := vs.Values[i].(*ast.BasicLit)
				if !ok || lit.Kind != token.INT {
					continue
				}
				edits = append(edits, edit{off: off(lit.Pos()), del: len(lit.Value), text: nv})
				res.KnobsApplied[n.Name] = fmt.Sprintf("%s:%d %s->%s", rel, fset.Position(lit.Pos()).Line, lit.Value, nv)
			}
		}
	}

	if nsites > 0 {
		// same line as the package clause, so that line numbers are preserved
		edits = append(edits, edit{off: off(f.Name.End()), text: fmt.Sprintf("; import %s %q", simName, SimPath)})
	}
	if len(edits) == 0 {
		return nil
	}
	sort.SliceStable(edits, func(i, j int) bool { return edits[i].off < edits[j].off })
	var out bytes.Buffer
	last := 0
	for _, e := range edits {
		if e.off < last {
			return fmt.Errorf("overlapping edits at offset %d", e.off)
		}
		out.Write(src[last:e.off])
		out.WriteString(e.text)
		last = e.off + e.del
	}
	out.Write(src[last:])
	return os.WriteFile(path, out.Bytes(), 0o644)
}

// visit2 lets a FuncDecl body be walked with the same visitor without re-entering FuncDecl.
func visit2(v *func(ast.Node) bool) func(ast.Node) bool {
	return func(n ast.Node) bool { return (*v)(n) }
}

func recvName(e ast.Expr) string {
	switch x := e.(type) {
	case *ast.StarExpr:
		return recvName(x.X)
	case *ast.Ident:
		return x.Name
	case *ast.IndexExpr:
		return recvName(x.X)
	case *ast.IndexListExpr:
		return recvName(x.X)
	}
	return "?"
}
